//! C12 — Remote calls run at most once, answer their own caller, mutate atomically.
//!
//! A counter-like target is served through every `#[rtc::remote]` server flavour (and as
//! `RFn` / `RFnMut` / `RFnOnce`); 1–4 remote clients (separately transferred, cloned at the remote
//! endpoint, or forwarded over a second connection) run scripts of calls, some of which are
//! cancelled by dropping the call future; an optional transport fault is armed on the first link.
//! The served object writes an execution log, the clients an invocation/response log, both stamped
//! by one global logical clock; the oracle is a set of invariants over the two logs.

use proptest::prelude::*;
use serde::{Deserialize, Serialize};
use std::{
    collections::BTreeMap,
    sync::{
        atomic::{AtomicU64, Ordering},
        Arc, Mutex,
    },
    time::Duration,
};

use crate::engine::{
    gen::{self, connect_pair, sched, GCfg, Sched},
    link::{Fault, FaultKind},
    runner::{self, Outcome, Report, Tier},
    sim::{self, spawn_actor, tape_pause, CancelAfter, Cancelled, Tape},
};
use remoc::{
    rch::base,
    rfn::{RFn, RFnMut, RFnOnce},
    rtc::{Server, ServerRef, ServerRefMut, ServerShared, ServerSharedMut},
};

/// Side finding (not a violation of the C12 statement): the provider task of a kept `RFnOnce`
/// panics in `tokio::select!` ("all branches are disabled and there is no else branch",
/// rfn_once.rs) when its request channel ends without a request (function dropped uncalled, call
/// future dropped before its first poll, or connection failure). The call itself still returns a
/// call error and the function is not run, so C12 holds; the harness runner however turns every
/// panic into a failure. While this constant is true that one panic is discarded (and counted in
/// class `known:rfn-once-provider-panic`) so that the search continues on these cases.
pub const IGNORE_RFNONCE_PROVIDER_PANIC: bool = true;

/// Genuine finding (see findings/forwarded-call-hangs-after-first-link-fault*.json): a call made
/// through a client that was forwarded over a second connection (A <- B <- C) can hang forever
/// when the first link (A-B) fails although the second link stays healthy. Root cause: the
/// forwarding task at B (`rch::mpsc::recv_impl`) reports the failure to C by sending a backchannel
/// message on the chmux port whose receiver it has just stopped polling; if that receiver has a
/// credit return waiting for space in the (full) port event queue, the unpolled credit-return
/// future keeps the head of the queue's FIFO wait list, so the backchannel send of the same task
/// waits behind it forever, no credits are returned, C's request send blocks inside the request
/// channel and its reply channel is never closed. Needs a full `shared_send_queue` at B (seen with
/// size 1). While this constant is true, cases with a transport fault do not use forwarded clients
/// (they are replaced by clones made at B), so that the search continues.
pub const EXCLUDE_FAULT_WITH_FORWARDED_CLIENTS: bool = false;

// ---------------------------------------------------------------------------------------------
// Remote interface
// ---------------------------------------------------------------------------------------------

/// Result of a call: carries the id of the call that produced it, so that a reply delivered to
/// the wrong caller is recognised whatever its value.
#[derive(Clone, Debug, PartialEq, Eq, Serialize, Deserialize)]
pub struct Reply {
    pub id: u32,
    pub val: i64,
}

/// Error type of all remote methods: `App` is the callee's own result, the others are call errors.
#[derive(Clone, Debug, Serialize, Deserialize)]
pub enum AppErr {
    App { id: u32, code: i64 },
    Rtc(remoc::rtc::CallError),
    Rfn(remoc::rfn::CallError),
}

impl From<remoc::rtc::CallError> for AppErr {
    fn from(e: remoc::rtc::CallError) -> Self {
        AppErr::Rtc(e)
    }
}

impl From<remoc::rfn::CallError> for AppErr {
    fn from(e: remoc::rfn::CallError) -> Self {
        AppErr::Rfn(e)
    }
}

type FRet = Result<Reply, AppErr>;

/// Trait with by-reference, by-mutable-reference, `#[no_cancel]` and by-value methods
/// (only the by-value server flavour exists for it; its client cannot be cloned).
#[remoc::rtc::remote]
pub trait CtrV {
    async fn get(&self, id: u32, arg: u32, susp: u32) -> Result<Reply, AppErr>;
    async fn add(&mut self, id: u32, arg: u32, susp: u32) -> Result<Reply, AppErr>;
    #[no_cancel]
    async fn add_nc(&mut self, id: u32, arg: u32, susp: u32) -> Result<Reply, AppErr>;
    async fn consume(self, id: u32, arg: u32, susp: u32) -> Result<Reply, AppErr>;
}

/// Trait with `&self` and `&mut self` methods and a clonable client (Value / RefMut / SharedMut servers).
#[remoc::rtc::remote(clone)]
pub trait CtrM: Send + Sync {
    async fn get(&self, id: u32, arg: u32, susp: u32) -> Result<Reply, AppErr>;
    #[no_cancel]
    async fn get_nc(&self, id: u32, arg: u32, susp: u32) -> Result<Reply, AppErr>;
    async fn add(&mut self, id: u32, arg: u32, susp: u32) -> Result<Reply, AppErr>;
    /// A *provided* method that the served object overrides: a call through the client must run
    /// the target's implementation (logged as `AddNc`), not this body on top of the proxy (which
    /// would show up as a foreign `Add` execution).
    #[no_cancel]
    async fn add_nc(&mut self, id: u32, arg: u32, susp: u32) -> Result<Reply, AppErr> {
        self.add(id, arg, susp).await
    }
}

/// Trait with `&self` methods only (Value / Ref / Shared servers); `bump` mutates through interior
/// mutability in one synchronous step.
#[remoc::rtc::remote]
pub trait CtrR: Send + Sync {
    async fn get(&self, id: u32, arg: u32, susp: u32) -> Result<Reply, AppErr>;
    #[no_cancel]
    async fn get_nc(&self, id: u32, arg: u32, susp: u32) -> Result<Reply, AppErr>;
    async fn bump(&self, id: u32, arg: u32, susp: u32) -> Result<Reply, AppErr>;
    /// Provided and overridden by the served object (see `CtrM::add_nc`).
    #[no_cancel]
    async fn bump_nc(&self, id: u32, arg: u32, susp: u32) -> Result<Reply, AppErr> {
        self.bump(id, arg, susp).await
    }
}

/// Which callee entry point ran.
#[derive(Clone, Copy, Debug, PartialEq, Eq, Serialize, Deserialize, Hash)]
pub enum MName {
    Get,
    GetNc,
    Add,
    AddNc,
    Consume,
    Bump,
    BumpNc,
    Fun,
}

/// What an execution does to the counter.
#[derive(Clone, Copy, Debug, PartialEq, Eq)]
pub enum EKind {
    /// Reads the counter at its end.
    Get,
    /// Reads the counter at its start, suspends, writes start value + delta at its end
    /// (only used where the library promises exclusive execution).
    Rmw,
    /// Adds delta in one synchronous step at its end (allowed to run concurrently).
    Bump,
}

// ---------------------------------------------------------------------------------------------
// Served object with execution log
// ---------------------------------------------------------------------------------------------

#[derive(Clone, Debug)]
pub struct Exec {
    pub id: u32,
    pub meth: MName,
    pub kind: EKind,
    pub arg: u32,
    pub susp: u32,
    pub start: u64,
    /// Clock value at which the execution ended (completed) or was dropped (aborted).
    pub stop: Option<u64>,
    pub completed: bool,
    pub v_start: i64,
    /// Ok(value) or Err(code) as returned by the callee.
    pub result: Option<Result<i64, i64>>,
}

pub struct Shared {
    clock: AtomicU64,
    value: Mutex<i64>,
    execs: Mutex<Vec<Exec>>,
}

impl Shared {
    fn new() -> Arc<Self> {
        Arc::new(Shared { clock: AtomicU64::new(1), value: Mutex::new(0), execs: Mutex::new(Vec::new()) })
    }
    fn tick(&self) -> u64 {
        self.clock.fetch_add(1, Ordering::SeqCst)
    }
}

struct AbortGuard {
    sh: Arc<Shared>,
    idx: usize,
    done: bool,
}

impl Drop for AbortGuard {
    fn drop(&mut self) {
        if !self.done {
            let t = self.sh.tick();
            let mut e = self.sh.execs.lock().unwrap();
            e[self.idx].stop = Some(t);
        }
    }
}

/// Suspension points of a callee: none, scheduler yields, or virtual-time sleeps.
async fn suspend(code: u32) {
    match code % 6 {
        0 => {}
        1 => tokio::task::yield_now().await,
        2 => sim::ticks(3).await,
        3 => tokio::time::sleep(Duration::from_millis(1)).await,
        4 => {
            tokio::time::sleep(Duration::from_millis(30)).await;
            tokio::task::yield_now().await;
        }
        _ => tokio::time::sleep(Duration::from_secs(1)).await,
    }
}

fn delta_of(arg: u32) -> i64 {
    (arg & 0xff) as i64 + 1
}

/// The callee reports its own error (still a result of that run) for these arguments.
fn is_app_error(arg: u32) -> bool {
    (arg & 0xff) % 5 == 4
}

/// Body of every remote method / function.
async fn run(sh: &Arc<Shared>, kind: EKind, meth: MName, id: u32, arg: u32, susp: u32) -> FRet {
    let (idx, v0) = {
        let start = sh.tick();
        let v0 = *sh.value.lock().unwrap();
        let mut e = sh.execs.lock().unwrap();
        e.push(Exec { id, meth, kind, arg, susp, start, stop: None, completed: false, v_start: v0, result: None });
        (e.len() - 1, v0)
    };
    let mut guard = AbortGuard { sh: sh.clone(), idx, done: false };
    suspend(susp).await;
    // Final step: synchronous (no await between the effect, the clock tick and the log entry).
    let val = {
        let mut v = sh.value.lock().unwrap();
        match kind {
            EKind::Get => *v,
            EKind::Rmw => {
                *v = v0 + delta_of(arg);
                *v
            }
            EKind::Bump => {
                *v += delta_of(arg);
                *v
            }
        }
    };
    let app = is_app_error(arg);
    {
        let t = sh.tick();
        let mut e = sh.execs.lock().unwrap();
        e[idx].stop = Some(t);
        e[idx].completed = true;
        e[idx].result = Some(if app { Err(val) } else { Ok(val) });
    }
    guard.done = true;
    if app {
        Err(AppErr::App { id, code: val })
    } else {
        Ok(Reply { id, val })
    }
}

pub struct Obj {
    sh: Arc<Shared>,
}

impl CtrV for Obj {
    async fn get(&self, id: u32, arg: u32, susp: u32) -> Result<Reply, AppErr> {
        run(&self.sh, EKind::Get, MName::Get, id, arg, susp).await
    }
    async fn add(&mut self, id: u32, arg: u32, susp: u32) -> Result<Reply, AppErr> {
        run(&self.sh, EKind::Rmw, MName::Add, id, arg, susp).await
    }
    async fn add_nc(&mut self, id: u32, arg: u32, susp: u32) -> Result<Reply, AppErr> {
        run(&self.sh, EKind::Rmw, MName::AddNc, id, arg, susp).await
    }
    async fn consume(self, id: u32, arg: u32, susp: u32) -> Result<Reply, AppErr> {
        run(&self.sh, EKind::Rmw, MName::Consume, id, arg, susp).await
    }
}

impl CtrM for Obj {
    async fn get(&self, id: u32, arg: u32, susp: u32) -> Result<Reply, AppErr> {
        run(&self.sh, EKind::Get, MName::Get, id, arg, susp).await
    }
    async fn get_nc(&self, id: u32, arg: u32, susp: u32) -> Result<Reply, AppErr> {
        run(&self.sh, EKind::Get, MName::GetNc, id, arg, susp).await
    }
    async fn add(&mut self, id: u32, arg: u32, susp: u32) -> Result<Reply, AppErr> {
        run(&self.sh, EKind::Rmw, MName::Add, id, arg, susp).await
    }
    async fn add_nc(&mut self, id: u32, arg: u32, susp: u32) -> Result<Reply, AppErr> {
        run(&self.sh, EKind::Rmw, MName::AddNc, id, arg, susp).await
    }
}

impl CtrR for Obj {
    async fn get(&self, id: u32, arg: u32, susp: u32) -> Result<Reply, AppErr> {
        run(&self.sh, EKind::Get, MName::Get, id, arg, susp).await
    }
    async fn get_nc(&self, id: u32, arg: u32, susp: u32) -> Result<Reply, AppErr> {
        run(&self.sh, EKind::Get, MName::GetNc, id, arg, susp).await
    }
    async fn bump(&self, id: u32, arg: u32, susp: u32) -> Result<Reply, AppErr> {
        run(&self.sh, EKind::Bump, MName::Bump, id, arg, susp).await
    }
    async fn bump_nc(&self, id: u32, arg: u32, susp: u32) -> Result<Reply, AppErr> {
        run(&self.sh, EKind::Bump, MName::BumpNc, id, arg, susp).await
    }
}

// ---------------------------------------------------------------------------------------------
// Cases
// ---------------------------------------------------------------------------------------------

#[derive(Clone, Copy, Debug, Serialize, Deserialize, PartialEq, Eq, Hash)]
pub enum Target {
    /// `CtrVServer` (by value; trait with a `self` method).
    ValueV,
    /// `CtrMServer` (by value).
    ValueM,
    /// `CtrMServerRefMut`.
    RefMutM,
    /// `CtrMServerSharedMut`; `two`: two servers share the same `Arc<RwLock<target>>`.
    SharedMutM { spawn: bool, two: bool },
    /// `CtrRServer` (by value).
    ValueR,
    /// `CtrRServerRef`.
    RefR,
    /// `CtrRServerShared`.
    SharedR { spawn: bool, two: bool },
    /// `CtrRServerSharedMut` (a `&self`-only trait behind the read lock).
    SharedMutR { spawn: bool },
    /// `RFn` with the given concurrency limit (0 = default).
    Fn { conc: u8 },
    FnMut,
    FnOnce,
}

#[derive(Clone, Copy, Debug, Serialize, Deserialize, PartialEq, Eq, Hash)]
pub enum Meth {
    Get,
    GetNc,
    Add,
    AddNc,
    Take,
}

#[derive(Clone, Debug, Serialize, Deserialize, PartialEq, Eq, Hash)]
pub struct Call {
    pub m: Meth,
    pub arg: u8,
    pub susp: u8,
    /// Drop the call future before it completes.
    pub cancel: Option<Cancel>,
    pub pause: bool,
}

#[derive(Clone, Copy, Debug, Serialize, Deserialize, PartialEq, Eq, Hash)]
pub enum Cancel {
    /// After this many pending polls (at the next wake-up).
    Polls(u8),
    /// After this many scheduler passes.
    Ticks(u8),
    /// After this much virtual time (ms): lands inside sleeping executions.
    Ms(u16),
}

#[derive(Clone, Copy, Debug, Serialize, Deserialize, PartialEq, Eq, Hash)]
pub enum Origin {
    /// Own client handle, transferred from the serving endpoint A to endpoint B.
    Own,
    /// Clone of client 0 made at endpoint B.
    CloneAtB,
    /// Clone of client 0 made at B and sent on to endpoint C over a second connection.
    ViaC,
}

#[derive(Clone, Debug, Serialize, Deserialize, PartialEq, Eq, Hash)]
pub struct ClientScript {
    pub origin: Origin,
    pub calls: Vec<Call>,
}

#[derive(Clone, Debug, Serialize, Deserialize, PartialEq, Eq, Hash)]
pub struct Case {
    pub cfg_a: GCfg,
    pub cfg_b: GCfg,
    pub sched: Sched,
    pub target: Target,
    pub buffer: u8,
    pub clients: Vec<ClientScript>,
    /// Fault on the A<->B link, `after` counted from the end of the setup phase.
    pub fault: Option<Fault>,
}

impl Target {
    fn clonable(&self) -> bool {
        !matches!(self, Target::ValueV | Target::FnMut | Target::FnOnce)
    }
    fn label(&self) -> String {
        match self {
            Target::ValueV => "rtc:Server(self-trait)".into(),
            Target::ValueM => "rtc:Server(mut-trait)".into(),
            Target::RefMutM => "rtc:ServerRefMut".into(),
            Target::SharedMutM { spawn, two } => format!("rtc:ServerSharedMut(spawn={spawn}{})", if *two { ",two-servers" } else { "" }),
            Target::ValueR => "rtc:Server(ref-trait)".into(),
            Target::RefR => "rtc:ServerRef".into(),
            Target::SharedR { spawn, two } => format!("rtc:ServerShared(spawn={spawn}{})", if *two { ",two-servers" } else { "" }),
            Target::SharedMutR { spawn } => format!("rtc:ServerSharedMut(ref-trait,spawn={spawn})"),
            Target::Fn { .. } => "rfn:RFn".into(),
            Target::FnMut => "rfn:RFnMut".into(),
            Target::FnOnce => "rfn:RFnOnce".into(),
        }
    }
    /// Entry point, effect and wire argument of a scripted call on this target.
    fn plan(&self, m: Meth, arg: u8) -> (MName, EKind, u32) {
        let a = arg as u32;
        match self {
            Target::ValueV => match m {
                Meth::Get | Meth::GetNc => (MName::Get, EKind::Get, a),
                Meth::Add => (MName::Add, EKind::Rmw, a),
                Meth::AddNc => (MName::AddNc, EKind::Rmw, a),
                Meth::Take => (MName::Consume, EKind::Rmw, a),
            },
            Target::ValueM | Target::RefMutM | Target::SharedMutM { .. } => match m {
                Meth::Get => (MName::Get, EKind::Get, a),
                Meth::GetNc => (MName::GetNc, EKind::Get, a),
                Meth::Add | Meth::Take => (MName::Add, EKind::Rmw, a),
                Meth::AddNc => (MName::AddNc, EKind::Rmw, a),
            },
            Target::ValueR | Target::RefR | Target::SharedR { .. } | Target::SharedMutR { .. } => match m {
                Meth::Get => (MName::Get, EKind::Get, a),
                Meth::GetNc => (MName::GetNc, EKind::Get, a),
                Meth::Add | Meth::Take => (MName::Bump, EKind::Bump, a),
                Meth::AddNc => (MName::BumpNc, EKind::Bump, a),
            },
            // Remote functions: bit 8 of the argument selects "mutate".
            Target::Fn { .. } => match m {
                Meth::Get | Meth::GetNc => (MName::Fun, EKind::Get, a),
                _ => (MName::Fun, EKind::Bump, a | 0x100),
            },
            Target::FnMut | Target::FnOnce => match m {
                Meth::Get | Meth::GetNc => (MName::Fun, EKind::Get, a),
                _ => (MName::Fun, EKind::Rmw, a | 0x100),
            },
        }
    }
    /// Exclusive execution promised for Rmw executions; all executions of these targets are
    /// serialised against them.
    fn has_exclusive(&self) -> bool {
        matches!(self, Target::ValueV | Target::ValueM | Target::RefMutM | Target::SharedMutM { .. } | Target::FnMut | Target::FnOnce)
    }
}

fn cfg_strategy() -> BoxedStrategy<GCfg> {
    (
        prop_oneof![Just(16u32), Just(64u32), Just(1024u32)],
        prop_oneof![Just(64u32), Just(256u32), Just(4096u32)],
        1usize..=3,
        prop_oneof![3 => Just(Some(60u32)), 1 => Just(Some(20u32))],
    )
        .prop_map(|(chunk_size, receive_buffer, q, timeout_s)| GCfg {
            chunk_size,
            receive_buffer,
            max_data_size: 1 << 16,
            shared_q: q,
            tsend_q: q,
            trecv_q: q,
            connect_queue: 8,
            max_ports: 256,
            max_received_ports: 64,
            timeout_s,
        })
        .boxed()
}

fn call_strategy() -> BoxedStrategy<Call> {
    (
        prop_oneof![
            3 => Just(Meth::Get),
            1 => Just(Meth::GetNc),
            4 => Just(Meth::Add),
            3 => Just(Meth::AddNc),
            1 => Just(Meth::Take),
        ],
        0u8..=9,
        prop_oneof![2 => Just(0u8), 1 => Just(1u8), 1 => Just(2u8), 2 => Just(3u8), 2 => Just(4u8), 1 => Just(5u8)],
        prop_oneof![
            6 => Just(None),
            1 => (0u8..=3).prop_map(|n| Some(Cancel::Polls(n))),
            1 => (1u8..=40).prop_map(|n| Some(Cancel::Ticks(n))),
            2 => prop_oneof![Just(0u16), Just(1u16), Just(5u16), Just(29u16), Just(31u16), Just(200u16), Just(999u16), Just(1001u16)].prop_map(|n| Some(Cancel::Ms(n))),
        ],
        prop_oneof![3 => Just(false), 1 => Just(true)],
    )
        .prop_map(|(m, arg, susp, cancel, pause)| Call { m, arg, susp, cancel, pause })
        .boxed()
}

fn fault_strategy() -> BoxedStrategy<Option<Fault>> {
    prop_oneof![
        3 => Just(None),
        1 => (
            0u8..2,
            0u32..120,
            prop_oneof![
                Just(FaultKind::SinkError),
                Just(FaultKind::StreamError),
                Just(FaultKind::Eof),
                Just(FaultKind::Stall),
                Just(FaultKind::StallOneWay)
            ]
        )
            .prop_map(|(dir, after, kind)| Some(Fault { dir, after, kind })),
    ]
    .boxed()
}

fn case_strategy(tier: Tier, target: BoxedStrategy<Target>) -> BoxedStrategy<Case> {
    let max_calls = tier.pick(6usize, 10usize);
    let script = move |first: bool| {
        (
            if first {
                Just(Origin::Own).boxed()
            } else {
                prop_oneof![2 => Just(Origin::Own), 1 => Just(Origin::CloneAtB), 1 => Just(Origin::ViaC)].boxed()
            },
            proptest::collection::vec(call_strategy(), 1..=max_calls),
        )
            .prop_map(|(origin, calls)| ClientScript { origin, calls })
    };
    (
        cfg_strategy(),
        cfg_strategy(),
        sched(true),
        target,
        1u8..=4,
        script(true),
        proptest::collection::vec(script(false), 0..=3),
        fault_strategy(),
    )
        .prop_map(|(cfg_a, cfg_b, mut sched, target, buffer, first, mut rest, fault)| {
            // Delays stay well below the connection timeouts: a slow link is not a fault.
            sched.delays_ab.iter_mut().chain(sched.delays_ba.iter_mut()).for_each(|d| {
                if *d >= 233 {
                    *d = 232;
                }
            });
            if !target.clonable() {
                rest.clear();
            }
            let mut clients = vec![first];
            clients.append(&mut rest);
            if EXCLUDE_FAULT_WITH_FORWARDED_CLIENTS && fault.is_some() {
                for c in clients.iter_mut() {
                    if c.origin == Origin::ViaC {
                        c.origin = Origin::CloneAtB;
                    }
                }
            }
            if matches!(target, Target::FnOnce) {
                clients[0].calls.truncate(1);
            }
            Case { cfg_a, cfg_b, sched, target, buffer, clients, fault }
        })
        .boxed()
}

pub fn strategy_rtc(tier: Tier) -> BoxedStrategy<Case> {
    let target = prop_oneof![
        2 => Just(Target::ValueV),
        2 => Just(Target::ValueM),
        2 => Just(Target::RefMutM),
        5 => (any::<bool>(), any::<bool>()).prop_map(|(spawn, two)| Target::SharedMutM { spawn, two }),
        1 => Just(Target::ValueR),
        1 => Just(Target::RefR),
        2 => (any::<bool>(), any::<bool>()).prop_map(|(spawn, two)| Target::SharedR { spawn, two }),
        1 => any::<bool>().prop_map(|spawn| Target::SharedMutR { spawn }),
    ]
    .boxed();
    case_strategy(tier, target)
}

pub fn strategy_rfn(tier: Tier) -> BoxedStrategy<Case> {
    let target = prop_oneof![
        3 => prop_oneof![Just(0u8), Just(1u8), Just(2u8)].prop_map(|conc| Target::Fn { conc }),
        5 => Just(Target::FnMut),
        1 => Just(Target::FnOnce),
    ]
    .boxed();
    case_strategy(tier, target)
}

// ---------------------------------------------------------------------------------------------
// Client handles
// ---------------------------------------------------------------------------------------------

type FArgs = (u32, u32, u32);

#[derive(Serialize, Deserialize)]
enum Handle {
    V(Option<CtrVClient>),
    M(CtrMClient),
    R(CtrRClient),
    F(RFn<FArgs, FRet>),
    FM(RFnMut<FArgs, FRet>),
    FO(Option<RFnOnce<FArgs, FRet>>),
}

impl Handle {
    fn try_clone(&self) -> Option<Handle> {
        match self {
            Handle::M(c) => Some(Handle::M(c.clone())),
            Handle::R(c) => Some(Handle::R(c.clone())),
            Handle::F(c) => Some(Handle::F(c.clone())),
            _ => None,
        }
    }
    fn usable(&self) -> bool {
        match self {
            Handle::V(c) => c.is_some(),
            Handle::FO(c) => c.is_some(),
            _ => true,
        }
    }
    async fn call(&mut self, mn: MName, id: u32, arg: u32, susp: u32) -> FRet {
        match self {
            Handle::V(slot) => match mn {
                MName::Get => slot.as_ref().unwrap().get(id, arg, susp).await,
                MName::Add => slot.as_mut().unwrap().add(id, arg, susp).await,
                MName::AddNc => slot.as_mut().unwrap().add_nc(id, arg, susp).await,
                MName::Consume => {
                    let c = slot.take().unwrap();
                    c.consume(id, arg, susp).await
                }
                _ => unreachable!("method {mn:?} on CtrV"),
            },
            Handle::M(c) => match mn {
                MName::Get => CtrM::get(c, id, arg, susp).await,
                MName::GetNc => CtrM::get_nc(c, id, arg, susp).await,
                MName::Add => CtrM::add(c, id, arg, susp).await,
                MName::AddNc => CtrM::add_nc(c, id, arg, susp).await,
                _ => unreachable!("method {mn:?} on CtrM"),
            },
            Handle::R(c) => match mn {
                MName::Get => CtrR::get(c, id, arg, susp).await,
                MName::GetNc => CtrR::get_nc(c, id, arg, susp).await,
                MName::Bump => CtrR::bump(c, id, arg, susp).await,
                MName::BumpNc => CtrR::bump_nc(c, id, arg, susp).await,
                _ => unreachable!("method {mn:?} on CtrR"),
            },
            Handle::F(f) => f.call(id, arg, susp).await,
            Handle::FM(f) => f.call(id, arg, susp).await,
            Handle::FO(slot) => {
                let f = slot.take().unwrap();
                f.call(id, arg, susp).await
            }
        }
    }
}

fn fun_kind(exclusive: bool, arg: u32) -> EKind {
    if arg & 0x100 == 0 {
        EKind::Get
    } else if exclusive {
        EKind::Rmw
    } else {
        EKind::Bump
    }
}

// ---------------------------------------------------------------------------------------------
// Client log
// ---------------------------------------------------------------------------------------------

#[derive(Clone, Debug, PartialEq)]
pub enum Outc {
    Pending,
    Ok(Reply),
    App { id: u32, code: i64 },
    CallErr(String),
    Cancelled,
}

#[derive(Clone, Debug)]
pub struct CallRec {
    pub id: u32,
    pub client: usize,
    pub meth: MName,
    pub kind: EKind,
    pub arg: u32,
    pub susp: u32,
    pub invoke: u64,
    pub response: Option<u64>,
    pub outcome: Outc,
}

type CLog = Arc<Mutex<Vec<CallRec>>>;

async fn client_actor(ci: usize, mut h: Handle, script: Vec<Call>, target: Target, sh: Arc<Shared>, clog: CLog, tape: Tape) -> Handle {
    for (k, c) in script.iter().enumerate() {
        if c.pause {
            tape_pause(&tape, true).await;
        }
        if !h.usable() {
            break;
        }
        let id = ci as u32 * 100 + k as u32 + 1;
        let (mn, kind, arg) = target.plan(c.m, c.arg);
        let susp = c.susp as u32;
        let idx = {
            let invoke = sh.tick();
            let mut l = clog.lock().unwrap();
            l.push(CallRec { id, client: ci, meth: mn, kind, arg, susp, invoke, response: None, outcome: Outc::Pending });
            l.len() - 1
        };
        let res = {
            let fut = h.call(mn, id, arg, susp);
            match c.cancel {
                None => Cancelled::Done(fut.await),
                Some(Cancel::Polls(n)) => CancelAfter::new(fut, Some(n as u32)).await,
                Some(Cancel::Ticks(n)) => {
                    tokio::pin!(fut);
                    tokio::select! {
                        biased;
                        r = &mut fut => Cancelled::Done(r),
                        () = sim::ticks(n as u32) => Cancelled::Dropped,
                    }
                }
                Some(Cancel::Ms(ms)) => {
                    tokio::pin!(fut);
                    tokio::select! {
                        biased;
                        r = &mut fut => Cancelled::Done(r),
                        () = tokio::time::sleep(Duration::from_millis(ms as u64)) => Cancelled::Dropped,
                    }
                }
            }
        };
        let t = sh.tick();
        let outcome = match res {
            Cancelled::Dropped => Outc::Cancelled,
            Cancelled::Done(Ok(r)) => Outc::Ok(r),
            Cancelled::Done(Err(AppErr::App { id, code })) => Outc::App { id, code },
            Cancelled::Done(Err(AppErr::Rtc(e))) => Outc::CallErr(format!("{e:?}")),
            Cancelled::Done(Err(AppErr::Rfn(e))) => Outc::CallErr(format!("{e:?}")),
        };
        let mut l = clog.lock().unwrap();
        l[idx].response = Some(t);
        l[idx].outcome = outcome;
    }
    h
}

// ---------------------------------------------------------------------------------------------
// Driver
// ---------------------------------------------------------------------------------------------

pub struct RunOut {
    pub fails: Vec<(String, String)>,
    pub frames: u64,
    pub execs: Vec<Exec>,
    pub calls: Vec<CallRec>,
    pub final_value: i64,
    pub setup_ok: bool,
}

/// Creates the server(s) on the serving endpoint; returns one handle per `Own` client.
async fn serve_target(target: Target, buffer: usize, n_own: usize, sh: &Arc<Shared>) -> Result<(Vec<Handle>, Vec<tokio::task::JoinHandle<()>>), String> {
    let mut tasks = Vec::new();
    let mut handles: Vec<Handle> = Vec::new();
    let obj = Obj { sh: sh.clone() };
    let clones = |first: Handle, n: usize| -> Vec<Handle> {
        let mut v = Vec::new();
        for _ in 1..n {
            v.push(first.try_clone().expect("clonable"));
        }
        v.insert(0, first);
        v
    };
    match target {
        Target::ValueV => {
            let (server, client) = CtrVServer::new(obj, buffer);
            tasks.push(spawn_actor(async move {
                let _ = server.serve().await;
            }));
            handles.push(Handle::V(Some(client)));
        }
        Target::ValueM => {
            let (server, client) = CtrMServer::new(obj, buffer);
            tasks.push(spawn_actor(async move {
                let _ = server.serve().await;
            }));
            handles = clones(Handle::M(client), n_own);
        }
        Target::RefMutM => {
            let (ctx, crx) = tokio::sync::oneshot::channel();
            tasks.push(spawn_actor(async move {
                let mut obj = obj;
                let (server, client) = CtrMServerRefMut::new(&mut obj, buffer);
                let _ = ctx.send(client);
                let _ = server.serve().await;
            }));
            let client: CtrMClient = sim::within(100, crx).await.map_err(|_| "server task did not start")?.map_err(|_| "server task died")?;
            handles = clones(Handle::M(client), n_own);
        }
        Target::SharedMutM { spawn, two } => {
            let shared = Arc::new(remoc::rtc::LocalRwLock::new(obj));
            let n_srv = if two { 2 } else { 1 };
            let mut firsts = Vec::new();
            for _ in 0..n_srv {
                let (server, client) = CtrMServerSharedMut::new(shared.clone(), buffer);
                tasks.push(spawn_actor(async move {
                    let _ = server.serve(spawn).await;
                }));
                firsts.push(client);
            }
            for i in 0..n_own {
                handles.push(Handle::M(firsts[i % n_srv].clone()));
            }
        }
        Target::ValueR => {
            let (server, client) = CtrRServer::new(obj, buffer);
            tasks.push(spawn_actor(async move {
                let _ = server.serve().await;
            }));
            handles = clones(Handle::R(client), n_own);
        }
        Target::RefR => {
            let (ctx, crx) = tokio::sync::oneshot::channel();
            tasks.push(spawn_actor(async move {
                let obj = obj;
                let (server, client) = CtrRServerRef::new(&obj, buffer);
                let _ = ctx.send(client);
                let _ = server.serve().await;
            }));
            let client: CtrRClient = sim::within(100, crx).await.map_err(|_| "server task did not start")?.map_err(|_| "server task died")?;
            handles = clones(Handle::R(client), n_own);
        }
        Target::SharedR { spawn, two } => {
            let shared = Arc::new(obj);
            let n_srv = if two { 2 } else { 1 };
            let mut firsts = Vec::new();
            for _ in 0..n_srv {
                let (server, client) = CtrRServerShared::new(shared.clone(), buffer);
                tasks.push(spawn_actor(async move {
                    let _ = server.serve(spawn).await;
                }));
                firsts.push(client);
            }
            for i in 0..n_own {
                handles.push(Handle::R(firsts[i % n_srv].clone()));
            }
        }
        Target::SharedMutR { spawn } => {
            let shared = Arc::new(remoc::rtc::LocalRwLock::new(obj));
            let (server, client) = CtrRServerSharedMut::new(shared, buffer);
            tasks.push(spawn_actor(async move {
                let _ = server.serve(spawn).await;
            }));
            handles = clones(Handle::R(client), n_own);
        }
        Target::Fn { conc } => {
            let sh2 = sh.clone();
            let (rfn, provider) = RFn::provided_3(move |id: u32, arg: u32, susp: u32| {
                let sh = sh2.clone();
                async move { run(&sh, fun_kind(false, arg), MName::Fun, id, arg, susp).await }
            });
            if conc > 0 {
                provider.set_max_concurrency(conc as usize);
            }
            provider.keep();
            handles = clones(Handle::F(rfn), n_own);
        }
        Target::FnMut => {
            let sh2 = sh.clone();
            let rfn = RFnMut::new_3(move |id: u32, arg: u32, susp: u32| {
                let sh = sh2.clone();
                async move { run(&sh, fun_kind(true, arg), MName::Fun, id, arg, susp).await }
            });
            handles.push(Handle::FM(rfn));
        }
        Target::FnOnce => {
            let sh2 = sh.clone();
            let rfn = RFnOnce::new_3(move |id: u32, arg: u32, susp: u32| async move { run(&sh2, fun_kind(true, arg), MName::Fun, id, arg, susp).await });
            handles.push(Handle::FO(Some(rfn)));
        }
    }
    Ok((handles, tasks))
}

/// Moves handles from one endpoint to the other through a base channel over a fresh chmux port.
async fn transfer(from: &remoc::chmux::Client, to: &mut remoc::chmux::Listener, items: Vec<Handle>) -> Result<Vec<Handle>, String> {
    let (conn, acc) = tokio::join!(sim::within(3000, from.connect()), sim::within(3000, to.accept()));
    let ((raw_tx, _raw_rx_a), (_raw_tx_b, raw_rx)) = match (conn, acc) {
        (Ok(Ok(c)), Ok(Ok(Some(l)))) => (c, l),
        _ => return Err("base port setup failed".into()),
    };
    let mut btx = base::Sender::<Handle>::new(raw_tx);
    let mut brx = base::Receiver::<Handle>::new(raw_rx);
    let mut out = Vec::new();
    for h in items {
        let (s, r) = tokio::join!(sim::within(3000, btx.send(h)), sim::within(3000, brx.recv()));
        match (s, r) {
            (Ok(Ok(())), Ok(Ok(Some(h2)))) => out.push(h2),
            (s, r) => return Err(format!("transfer of a client handle failed: send {:?}, recv {:?}", s.map(|x| x.is_ok()), r.map(|x| x.map(|y| y.is_some()).map_err(|e| e.to_string())))),
        }
    }
    // Keep the base channel open for the rest of the case.
    tokio::spawn(async move {
        let _keep = (btx, brx, _raw_rx_a, _raw_tx_b);
        futures::future::pending::<()>().await;
    });
    Ok(out)
}

async fn execute(case: &Case) -> RunOut {
    let sh = Shared::new();
    let mut out = RunOut { fails: vec![], frames: 0, execs: vec![], calls: vec![], final_value: 0, setup_ok: false };
    let tape = case.sched.tape();
    let n = case.clients.len();
    let (link, a, b) = match connect_pair(&case.cfg_a, &case.cfg_b, &case.sched, vec![]).await {
        Ok(x) => x,
        Err(e) => {
            out.fails.push(("C12/setup".into(), e));
            return out;
        }
    };
    let gen::Side { client: ca, listener: _la, run: _ra } = a;
    let gen::Side { client: _cb, listener: mut lb, run: _rb } = b;

    let own_idx: Vec<usize> = (0..n).filter(|i| case.clients[*i].origin == Origin::Own).collect();
    let (own_handles, _server_tasks) = match serve_target(case.target, case.buffer as usize, own_idx.len(), &sh).await {
        Ok(x) => x,
        Err(e) => {
            out.fails.push(("C12/setup".into(), e));
            return out;
        }
    };
    let own_at_b = match transfer(&ca, &mut lb, own_handles).await {
        Ok(x) => x,
        Err(e) => {
            out.fails.push(("C12/setup".into(), e));
            return out;
        }
    };
    let mut slots: Vec<Option<Handle>> = (0..n).map(|_| None).collect();
    for (i, h) in own_idx.iter().zip(own_at_b) {
        slots[*i] = Some(h);
    }
    // Clones made at B (some of them sent on to C).
    let mut via_c = Vec::new();
    for i in 0..n {
        match case.clients[i].origin {
            Origin::Own => {}
            Origin::CloneAtB => slots[i] = slots[0].as_ref().and_then(|h| h.try_clone()),
            Origin::ViaC => {
                if let Some(h) = slots[0].as_ref().and_then(|h| h.try_clone()) {
                    via_c.push((i, h));
                }
            }
        }
    }
    let mut _second = None;
    if !via_c.is_empty() {
        let (link2, b2, c) = match connect_pair(&case.cfg_b, &case.cfg_a, &case.sched, vec![]).await {
            Ok(x) => x,
            Err(e) => {
                out.fails.push(("C12/setup".into(), e));
                return out;
            }
        };
        let gen::Side { client: cb2, listener: _lb2, run: _rb2 } = b2;
        let gen::Side { client: _cc, listener: mut lc, run: _rc } = c;
        let (idx, hs): (Vec<usize>, Vec<Handle>) = via_c.into_iter().unzip();
        match transfer(&cb2, &mut lc, hs).await {
            Ok(hs) => {
                for (i, h) in idx.into_iter().zip(hs) {
                    slots[i] = Some(h);
                }
            }
            Err(e) => {
                out.fails.push(("C12/setup".into(), e));
                return out;
            }
        }
        _second = Some((link2, cb2, _lb2, _rb2, _cc, lc, _rc));
    }
    out.setup_ok = true;
    if let Some(f) = &case.fault {
        link.arm(Fault { dir: f.dir, after: link.sent(f.dir) + f.after, kind: f.kind });
    }

    let clog: CLog = Arc::new(Mutex::new(Vec::new()));
    let mut actors = Vec::new();
    for (i, slot) in slots.into_iter().enumerate() {
        let Some(h) = slot else { continue };
        actors.push(spawn_actor(client_actor(i, h, case.clients[i].calls.clone(), case.target, sh.clone(), clog.clone(), tape.clone())));
    }
    let deadline = case.sched.deadline_s(6_000, gen::delay_cap_ms(&case.cfg_a, &case.cfg_b));
    let joined = sim::within(deadline, futures::future::join_all(actors)).await;
    let hung = joined.is_err();
    if !hung {
        // Quiescence: let executions that outlive their (cancelled / failed) calls finish.
        tokio::time::sleep(Duration::from_secs(30)).await;
    }
    out.frames = link.tap_len() as u64 / 2;
    out.execs = sh.execs.lock().unwrap().clone();
    out.calls = clog.lock().unwrap().clone();
    out.final_value = *sh.value.lock().unwrap();
    if hung && std::env::var("VERIF_DEBUG").is_ok() {
        let dump = |name: &str, tap: &[crate::engine::link::TapEv]| {
            let st = crate::engine::wire::analyze(tap);
            for m in st.msgs.iter().filter(|m| !m.delivered && !matches!(m.msg, crate::engine::refcodec::RefMsg::Ping)) {
                eprintln!("  {name} t={} dir={} {:?} payload={:?}", m.t_ms, m.dir, m.msg, m.payload.as_ref().map(|p| p.len()));
            }
        };
        dump("AB", &link.tap());
        if let Some(s2) = &_second {
            dump("BC", &s2.0.tap());
        }
    }
    if hung {
        let pend: Vec<String> = out
            .calls
            .iter()
            .filter(|c| c.outcome == Outc::Pending)
            .map(|c| {
                let ex = out.execs.iter().find(|e| e.id == c.id);
                format!("call {} ({:?}, arg {}, susp {}) by client {}: execution {:?}", c.id, c.meth, c.arg, c.susp, c.client, ex.map(|e| (e.start, e.stop, e.completed)))
            })
            .collect();
        out.fails.push((
            "C12/call-hangs".into(),
            format!("calls neither returned a result nor a call error within {deadline} virtual s (target {:?}, fault {:?}): {pend:?}", case.target, case.fault),
        ));
    }
    drop(joined);
    out
}

// ---------------------------------------------------------------------------------------------
// Oracle
// ---------------------------------------------------------------------------------------------

const INF: u64 = u64::MAX;

fn stop_of(e: &Exec) -> u64 {
    e.stop.unwrap_or(INF)
}

/// Invariants over the execution log of the served object and the invocation/response log of
/// the clients.
pub fn check(target: &Target, execs: &[Exec], calls: &[CallRec], final_value: i64) -> Vec<(String, String)> {
    let mut fails: Vec<(String, String)> = Vec::new();
    let by_id: BTreeMap<u32, &CallRec> = calls.iter().map(|c| (c.id, c)).collect();
    let mut ex_by_id: BTreeMap<u32, Vec<&Exec>> = BTreeMap::new();
    for e in execs {
        ex_by_id.entry(e.id).or_default().push(e);
    }
    // (1a) every execution belongs to an invoked call, with the arguments passed; at most one per call.
    for (id, es) in &ex_by_id {
        match by_id.get(id) {
            None => fails.push(("C12/phantom-execution".into(), format!("the callee ran {:?} with call id {id} (arg {}, susp {}) which no client invoked", es[0].meth, es[0].arg, es[0].susp))),
            Some(c) => {
                for e in es {
                    if e.meth != c.meth || e.arg != c.arg || e.susp != c.susp {
                        fails.push((
                            "C12/args-mismatch".into(),
                            format!("call {id} was invoked as {:?}(arg {}, susp {}) but the callee ran {:?}(arg {}, susp {})", c.meth, c.arg, c.susp, e.meth, e.arg, e.susp),
                        ));
                    }
                }
            }
        }
        if es.len() > 1 {
            fails.push(("C12/ran-twice".into(), format!("call {id} was executed {} times: {:?}", es.len(), es.iter().map(|e| (e.start, e.stop)).collect::<Vec<_>>())));
        }
    }
    // (1b) a returned callee result is the result of this call's single, completed execution.
    for c in calls {
        let (rid, rres) = match &c.outcome {
            Outc::Ok(r) => (r.id, Ok(r.val)),
            Outc::App { id, code } => (*id, Err(*code)),
            _ => continue,
        };
        if rid != c.id {
            fails.push(("C12/foreign-result".into(), format!("call {} ({:?}) by client {} returned the result of call {rid}: {:?}", c.id, c.meth, c.client, c.outcome)));
            continue;
        }
        match ex_by_id.get(&c.id).map(|v| v.as_slice()) {
            None | Some([]) => fails.push(("C12/result-without-execution".into(), format!("call {} returned {:?} but the callee never ran it", c.id, c.outcome))),
            Some([e, ..]) => {
                if !e.completed || e.result != Some(rres) {
                    fails.push((
                        "C12/foreign-result".into(),
                        format!("call {} returned {:?} but its execution (completed={}) produced {:?}", c.id, c.outcome, e.completed, e.result),
                    ));
                }
            }
        }
    }
    // (2) exclusive executions overlap nothing.
    if target.has_exclusive() {
        for (i, x) in execs.iter().enumerate() {
            if x.kind != EKind::Rmw {
                continue;
            }
            for (j, y) in execs.iter().enumerate() {
                if i == j || (y.kind == EKind::Rmw && j < i) {
                    continue;
                }
                if x.start < stop_of(y) && y.start < stop_of(x) {
                    fails.push((
                        "C12/mut-overlap".into(),
                        format!(
                            "mutable execution of call {} ({:?}, clock {}..{:?}) overlaps the execution of call {} ({:?}, clock {}..{:?})",
                            x.id, x.meth, x.start, x.stop, y.id, y.meth, y.start, y.stop
                        ),
                    ));
                }
            }
        }
        // A by-reference execution under an exclusive-capable target sees a stable counter.
        for e in execs {
            if e.kind == EKind::Get && e.completed && e.result.map(|r| r.unwrap_or_else(|c| c)) != Some(e.v_start) {
                fails.push((
                    "C12/torn-read".into(),
                    format!("the counter changed from {} to {:?} while the by-reference execution of call {} was running", e.v_start, e.result, e.id),
                ));
            }
        }
    }
    // (3) real-time order: a call answered before another is invoked ran before it.
    for a in calls {
        if !matches!(a.outcome, Outc::Ok(_) | Outc::App { .. }) {
            continue;
        }
        let Some(ra) = a.response else { continue };
        let Some(ea) = ex_by_id.get(&a.id).and_then(|v| v.first()) else { continue };
        for b in calls {
            if b.invoke <= ra {
                continue;
            }
            if let Some(eb) = ex_by_id.get(&b.id).and_then(|v| v.first()) {
                if !(stop_of(ea) < eb.start) {
                    fails.push((
                        "C12/real-time-order".into(),
                        format!("call {} was answered (clock {ra}) before call {} was invoked (clock {}), but its execution {}..{:?} does not precede the other's start {}", a.id, b.id, b.invoke, ea.start, ea.stop, eb.start),
                    ));
                }
            }
        }
    }
    // (4) sequential replay of the completed executions in the order of their effect.
    let mut done: Vec<&Exec> = execs.iter().filter(|e| e.completed).collect();
    done.sort_by_key(|e| e.stop);
    let mut model: i64 = 0;
    for e in &done {
        let got = e.result.map(|r| r.unwrap_or_else(|c| c));
        match e.kind {
            EKind::Get => {}
            EKind::Rmw | EKind::Bump => model += delta_of(e.arg),
        }
        if got != Some(model) {
            let sig = if e.kind == EKind::Get { "C12/stale-read" } else { "C12/lost-update" };
            fails.push((sig.into(), format!("sequential replay of the execution log: call {} ({:?}, arg {}) should have produced {model} but produced {got:?}", e.id, e.meth, e.arg)));
            // Resynchronise so that one lost update is reported once.
            if let Some(g) = got {
                model = g;
            }
        }
    }
    if fails.iter().all(|(s, _)| s != "C12/lost-update" && s != "C12/stale-read") && final_value != model {
        fails.push(("C12/lost-update".into(), format!("final counter value {final_value} differs from the sequential replay {model}")));
    }
    fails
}

/// Non-trivial: at least two calls in flight at the same time, both executed by the callee, at
/// least one of them mutating.
fn measure_nontrivial(execs: &[Exec], calls: &[CallRec]) -> (bool, bool) {
    let ex = |id: u32| execs.iter().find(|e| e.id == id);
    let span = |c: &CallRec| -> Option<(u64, u64)> {
        let e = ex(c.id)?;
        let end = match c.outcome {
            Outc::Pending => INF,
            _ => c.response.unwrap_or(INF).max(if matches!(c.outcome, Outc::Cancelled | Outc::CallErr(_)) { stop_of(e) } else { 0 }),
        };
        Some((c.invoke, end))
    };
    let mut overlap_mut = false;
    for (i, a) in calls.iter().enumerate() {
        let Some((s1, e1)) = span(a) else { continue };
        for b in calls.iter().skip(i + 1) {
            let Some((s2, e2)) = span(b) else { continue };
            if s1 < e2 && s2 < e1 && (a.kind != EKind::Get || b.kind != EKind::Get) {
                overlap_mut = true;
            }
        }
    }
    let mut server_overlap = false;
    for (i, x) in execs.iter().enumerate() {
        for y in execs.iter().skip(i + 1) {
            if x.start < stop_of(y) && y.start < stop_of(x) {
                server_overlap = true;
            }
        }
    }
    (overlap_mut, server_overlap)
}

pub fn run_case(case: &Case) -> Outcome {
    let tape = case.sched.tape();
    let res = sim::run_sim(case.sched.tokio_seed, &tape, case.sched.defer, execute(case));
    let mut out = Outcome::default();
    out.frames = res.frames;
    let mut fails = res.fails.clone();
    fails.extend(check(&case.target, &res.execs, &res.calls, res.final_value));
    if std::env::var("VERIF_DEBUG").is_ok() {
        for e in &res.execs {
            eprintln!("exec {e:?}");
        }
        for c in &res.calls {
            eprintln!("call {c:?}");
        }
    }
    if let Some((s, m)) = fails.first() {
        out.fail(s.clone(), m.clone());
    }
    // Panics anywhere (library tasks included) are failures, except the documented side finding.
    for p in sim::take_panics() {
        if IGNORE_RFNONCE_PROVIDER_PANIC && p.contains("rfn_once.rs") && p.contains("all branches are disabled") {
            out.class("known:rfn-once-provider-panic");
            continue;
        }
        let loc = p.split(": ").next().unwrap_or("").to_string();
        out.fail(format!("panic/{loc}"), p.clone());
    }
    out.class(case.target.label());
    match &case.fault {
        None => out.class("fault:none"),
        Some(f) => out.class(format!("fault:{:?}", f.kind)),
    }
    out.class(format!("clients:{}", case.clients.len()));
    if case.clients.iter().any(|c| c.origin == Origin::ViaC) {
        out.class("client:via-second-connection");
    }
    if case.clients.iter().any(|c| c.origin == Origin::CloneAtB) {
        out.class("client:cloned-at-remote");
    }
    let n_ok = res.calls.iter().filter(|c| matches!(c.outcome, Outc::Ok(_))).count();
    if n_ok > 0 {
        out.class("outcome:result");
    }
    if res.calls.iter().any(|c| matches!(c.outcome, Outc::App { .. })) {
        out.class("outcome:callee-error");
    }
    if res.calls.iter().any(|c| matches!(c.outcome, Outc::CallErr(_))) {
        out.class("outcome:call-error");
    }
    if res.calls.iter().any(|c| c.outcome == Outc::Cancelled && res.execs.iter().any(|e| e.id == c.id)) {
        out.class("outcome:cancelled-after-start");
    }
    if res.execs.iter().any(|e| !e.completed && e.stop.is_some()) {
        out.class("exec:aborted-at-await");
    }
    let (overlap_mut, server_overlap) = measure_nontrivial(&res.execs, &res.calls);
    if server_overlap {
        out.class("exec:parallel-at-server");
    }
    out.nontrivial = overlap_mut && n_ok > 0;
    out
}

pub const RULE: &str = "cases = (Cfg pair, schedule with tape/deferral/frame delays, target: rtc Server (traits with self / &mut / & methods), ServerRefMut, ServerSharedMut (spawn on/off, one or two servers on the same Arc<RwLock>), ServerRef, ServerShared (spawn on/off, one or two servers), ServerSharedMut over a &self-only trait, RFn (concurrency limit default/1/2), RFnMut, RFnOnce; request buffer 1..4; 1..4 clients, each transferred on its own from the serving endpoint, cloned at the remote endpoint, or cloned and forwarded over a second connection; per client a script of calls (&self / #[no_cancel] &self / &mut self / #[no_cancel] &mut self / self, delta, 0..3 suspension points by yields or virtual sleeps, optional cancellation of the call future after n pending polls / n scheduler passes / t virtual ms (the latter lands inside sleeping executions), pauses); optional transport fault (sink/stream error, EOF, stall, one-way stall) after k frames). Oracle over two logs stamped by one logical clock (execution log written by the served object incl. aborted executions, invocation/response log of the clients): every execution belongs to an invoked call and carries exactly its method and arguments; at most one execution per call; a returned callee result (Ok or the callee's own error) carries the caller's id and equals the result of that call's single completed execution; executions of mutable-receiver methods / RFnMut calls overlap no other execution of the same target and by-reference executions see a stable counter; a call answered before another is invoked finished executing before the other started; sequential replay of the completed executions in effect order on a model counter reproduces every result and the final value (read-suspend-write mutations make overlap visible as lost updates); every call that is not cancelled returns within the virtual deadline; any panic in a library task is a failure (except the documented RFnOnce provider panic). non-trivial = at least two calls in flight at the same time, both executed by the callee, at least one of them mutating, and at least one call returned the callee's result; distinct = distinct case hash";

pub fn main(tier: Tier, seed: u64) -> Report {
    let mut rep = Report::new("C12", tier, seed);
    rep.rule = RULE.into();
    rep.assumptions = vec![
        "single-threaded deterministic simulation; task-level interleavings only (tape-driven poll deferral, frame delays, virtual sleeps inside the callee)".into(),
        "completion of #[no_cancel] methods after a cancelled call is not part of the statement and is not checked; a call error on a healthy connection is an allowed outcome".into(),
        "connection timeouts are enabled on all endpoints, so that every transport fault ends all calls in bounded virtual time".into(),
        "replies are small (no oversized-reply handling)".into(),
    ];
    let regress: Vec<Case> = runner::load_regress::<Case>("C12", "rtc").into_iter().chain(runner::load_regress::<Case>("C12", "rfn")).map(|(_, c)| c).collect();
    if !regress.is_empty() {
        runner::run_cases(&mut rep, "regress", regress, run_case);
    }
    runner::run_generated(&mut rep, "rtc", tier.pick(18_000, 60_000), || strategy_rtc(tier), run_case);
    runner::run_generated(&mut rep, "rfn", tier.pick(6000, 20_000), || strategy_rfn(tier), run_case);
    rep
}

pub fn replay(_part: &str, case: serde_json::Value) -> (Option<runner::Failure>, u32, u32) {
    let n = runner::replay_times(3);
    let c: Case = serde_json::from_value(case).expect("replay case does not parse as C12 case");
    let (f, h) = runner::replay_case(&c, run_case, n);
    (f, h, n)
}
