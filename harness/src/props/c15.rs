//! C15 — Watch channels converge to the latest value and never go backwards.
//!
//! A case is a small network of 1..4 endpoints in a line (0..3 chmux connections over simulated
//! transports), one watch channel (value = counter) created at one endpoint, and a history of ops:
//! bursts of updates (send / send_replace / send_modify), pauses, cloning a receiver, subscribing at
//! the sender, moving a receiver 1..3 connections away (re-sent at every intermediate endpoint),
//! moving the sender to the neighbouring endpoint, dropping a receiver. Every receiver is read by
//! its own actor following a generated script of read calls (borrow, borrow_and_update,
//! has_changed, changed, wait_for, ReceiverStream). The sender is dropped immediately after the
//! last update.

use futures::StreamExt;
use proptest::prelude::*;
use serde::{Deserialize, Serialize};
use std::{
    collections::BTreeMap,
    future::Future,
    pin::Pin,
    sync::{Arc, Mutex},
    time::Duration,
};
use tokio::sync::mpsc::{unbounded_channel, UnboundedReceiver, UnboundedSender};

use crate::engine::{
    gen::{self, connect_pair, sched, GCfg, Sched},
    link::{Fault, FaultKind, SimLink},
    runner::{self, Outcome, Report, Tier},
    sim::{self, spawn_actor, ticks},
};
use remoc::rch::{base, watch};

/// Generator switch reserved for requirement 7 of the brief (exclusion of the trigger of a genuine
/// finding). No genuine finding so far: nothing is excluded.
pub const EXCLUDE_KNOWN_TRIGGER: bool = false;

type Codec = remoc::codec::Default;
type WRx = watch::Receiver<u64, Codec>;
type WTx = watch::Sender<u64, Codec>;

// ---------------------------------------------------------------------------------------------
// Case
// ---------------------------------------------------------------------------------------------

#[derive(Clone, Copy, Debug, Serialize, Deserialize, PartialEq, Eq, Hash)]
pub enum Api {
    Send,
    Replace,
    Modify,
}

#[derive(Clone, Copy, Debug, Serialize, Deserialize, PartialEq, Eq, Hash)]
pub enum Step {
    /// `borrow()` (does not mark as seen).
    Borrow,
    /// `borrow_and_update()`.
    BorrowUpdate,
    /// `has_changed()`, then `borrow_and_update()` if it reports a change.
    HasChanged,
    /// `changed().await`, then `borrow_and_update()` (update) or `borrow()`.
    Changed { update: bool },
    /// `wait_for(|v| *v >= last observed + d)`, d >= 1.
    WaitFor(u8),
    /// Scheduler passes.
    Ticks(u8),
    /// Virtual sleep (code into 1/10/100/1000 ms).
    Sleep(u8),
}

#[derive(Clone, Debug, Serialize, Deserialize, PartialEq, Eq, Hash)]
pub struct Reader {
    pub steps: Vec<Step>,
    /// After that many completed steps the receiver is wrapped into a `ReceiverStream`.
    pub stream_after: Option<u8>,
}

#[derive(Clone, Debug, Serialize, Deserialize, PartialEq, Eq, Hash)]
pub enum Op {
    /// `n` updates; `gap` = scheduler passes between them (0 = synchronous burst).
    Send { n: u8, api: Api, gap: u8 },
    Pause { ticks: u8, ms: u16 },
    CloneRx { sel: u8, script: u8 },
    Subscribe { script: u8 },
    /// Sends receiver `sel` over 1..3 connections (direction reversed at the end of the line).
    MoveRx { sel: u8, up: bool, hops: u8 },
    /// Sends the sender to the neighbouring endpoint.
    MoveTx { up: bool },
    DropRx { sel: u8 },
}

#[derive(Clone, Debug, Serialize, Deserialize, PartialEq, Eq, Hash)]
pub struct FaultSpec {
    pub link: u8,
    pub dir: u8,
    pub after: u16,
    pub stream_error: bool,
}

#[derive(Clone, Debug, Serialize, Deserialize, PartialEq, Eq, Hash)]
pub struct Case {
    /// Number of connections (endpoints = hops + 1).
    pub hops: u8,
    /// Endpoint at which the channel is created (mod endpoints).
    pub origin: u8,
    /// The source is a `tokio::sync::watch` channel made remote by `watch::forward`.
    pub tokio_src: bool,
    pub cfg_a: GCfg,
    pub cfg_b: GCfg,
    pub sched: Sched,
    pub readers: Vec<Reader>,
    pub ops: Vec<Op>,
    /// Updates sent immediately (synchronously) before the sender is dropped.
    pub final_burst: u8,
    pub final_api: Api,
    /// Transport fault: only the safety part of the oracle applies.
    pub fault: Option<FaultSpec>,
}

fn api() -> BoxedStrategy<Api> {
    prop_oneof![3 => Just(Api::Send), 1 => Just(Api::Replace), 1 => Just(Api::Modify)].boxed()
}

fn step() -> BoxedStrategy<Step> {
    prop_oneof![
        2 => Just(Step::Borrow),
        2 => Just(Step::BorrowUpdate),
        1 => Just(Step::HasChanged),
        4 => any::<bool>().prop_map(|update| Step::Changed { update }),
        2 => (1u8..=3).prop_map(Step::WaitFor),
        2 => (1u8..=6).prop_map(Step::Ticks),
        2 => (0u8..=3).prop_map(Step::Sleep),
    ]
    .boxed()
}

fn reader() -> BoxedStrategy<Reader> {
    (proptest::collection::vec(step(), 1..6), prop_oneof![3 => Just(None), 1 => (0u8..=6).prop_map(Some)])
        .prop_map(|(steps, stream_after)| Reader { steps, stream_after })
        .boxed()
}

fn op() -> BoxedStrategy<Op> {
    prop_oneof![
        30 => (1u8..=4, api(), prop_oneof![2 => Just(0u8), 1 => 1u8..=4]).prop_map(|(n, api, gap)| Op::Send { n, api, gap }),
        20 => (0u8..=8, prop_oneof![3 => Just(0u16), 1 => Just(1u16), 1 => Just(20u16), 1 => Just(300u16), 1 => Just(4000u16)])
            .prop_map(|(ticks, ms)| Op::Pause { ticks, ms }),
        8 => (any::<u8>(), any::<u8>()).prop_map(|(sel, script)| Op::CloneRx { sel, script }),
        6 => any::<u8>().prop_map(|script| Op::Subscribe { script }),
        18 => (any::<u8>(), any::<bool>(), 1u8..=3).prop_map(|(sel, up, hops)| Op::MoveRx { sel, up, hops }),
        8 => any::<bool>().prop_map(|up| Op::MoveTx { up }),
        4 => any::<u8>().prop_map(|sel| Op::DropRx { sel }),
    ]
    .boxed()
}

fn cfg() -> BoxedStrategy<GCfg> {
    (prop_oneof![Just(16u32), Just(64u32), Just(1024u32)], prop_oneof![Just(64u32), Just(256u32), Just(4096u32)], 1usize..=4, 1usize..=4, 1usize..=4)
        .prop_map(|(chunk_size, receive_buffer, shared_q, tsend_q, trecv_q)| GCfg {
            chunk_size,
            receive_buffer,
            max_data_size: 1 << 16,
            shared_q,
            tsend_q,
            trecv_q,
            connect_queue: 8,
            max_ports: 256,
            max_received_ports: 16,
            timeout_s: Some(60),
        })
        .boxed()
}

pub fn strategy(tier: Tier) -> BoxedStrategy<Case> {
    let n_ops = tier.pick(20, 32);
    let fault = prop_oneof![
        9 => Just(None),
        1 => (any::<u8>(), 0u8..=1, 0u16..=60, any::<bool>()).prop_map(|(link, dir, after, stream_error)| Some(FaultSpec { link, dir, after, stream_error })),
    ];
    (
        (prop_oneof![1 => Just(0u8), 4 => Just(1u8), 3 => Just(2u8), 3 => Just(3u8)], any::<u8>(), prop_oneof![6 => Just(false), 1 => Just(true)]),
        cfg(),
        cfg(),
        sched(true),
        proptest::collection::vec(reader(), 1..4),
        proptest::collection::vec(op(), 1..n_ops),
        (0u8..=3, api()),
        fault,
    )
        .prop_map(|((hops, origin, tokio_src), cfg_a, cfg_b, sched, readers, ops, (final_burst, final_api), fault)| Case {
            hops,
            origin,
            tokio_src,
            cfg_a,
            cfg_b,
            sched,
            readers,
            ops,
            final_burst,
            final_api,
            fault: if hops == 0 { None } else { fault },
        })
        .boxed()
}

// ---------------------------------------------------------------------------------------------
// Recorded history
// ---------------------------------------------------------------------------------------------

#[derive(Clone, Debug)]
struct Obs {
    v: u64,
    /// Highest value issued by the sender when the observation was made.
    sent_hi: u64,
    how: &'static str,
}

#[derive(Clone, Debug, PartialEq)]
enum End {
    /// Closure observed (changed / wait_for / has_changed reported it), final borrow recorded.
    Closed,
    /// The stream ended.
    StreamEnd,
    Dropped,
    /// Clone requested from a receiver that had become a stream: never created.
    Skipped,
    /// Lost in a failed transfer (fault cases only).
    Lost,
    /// Reader gave up after a receive error.
    Errored,
}

#[derive(Debug)]
struct RxLog {
    /// Lower bound for the first observation (value visible to the receiver at creation).
    floor: u64,
    obs: Vec<Obs>,
    errors: Vec<String>,
    end: Option<End>,
    /// Endpoint (None while in transit).
    node: Option<usize>,
    transfers: u32,
    is_stream: bool,
    /// Closure seen while the sender was still alive.
    early_closure: bool,
}

impl RxLog {
    fn new(floor: u64, node: Option<usize>) -> Self {
        RxLog { floor, obs: vec![], errors: vec![], end: None, node, transfers: 0, is_stream: false, early_closure: false }
    }
}

enum Cmd {
    Clone { id: u32, script: usize, cmd_rx: UnboundedReceiver<Cmd> },
    Move { up: bool, hops: u8 },
    Drop,
}

/// Harness-side state of a receiver that travels (not serialisable, looked up by id on arrival).
struct Ticket {
    id: u32,
    script: usize,
    pos: usize,
    cmd_rx: UnboundedReceiver<Cmd>,
    last: u64,
    cycle_wait: bool,
    /// `sent_hi` when the transfer started.
    ship_sent_hi: u64,
}

struct World {
    sent_hi: u64,
    stored: Vec<bool>,
    last_stored: u64,
    sender_dropped: bool,
    logs: BTreeMap<u32, RxLog>,
    tickets: BTreeMap<u32, Ticket>,
    /// A receiver landed after a transfer during which the sender issued an update.
    inflight_rx: bool,
    inflight_tx: bool,
    relays: u32,
    rx_transfers: u32,
    tx_transfers: u32,
    healthy: bool,
    fails: Vec<(String, String)>,
}

#[derive(Serialize, Deserialize)]
enum Half {
    Rx { id: u32, hops_left: u8, rx: WRx },
    Tx(WTx),
}

enum Ship {
    Rx { id: u32, hops_left: u8, rx: WRx },
    Tx(WTx),
}

#[derive(Clone)]
struct Ctx {
    world: Arc<Mutex<World>>,
    readers: Arc<Vec<Reader>>,
    hops: usize,
    /// Per connection l (between endpoints l and l+1): [up queue (l -> l+1), down queue (l+1 -> l)].
    queues: Arc<Vec<[UnboundedSender<Ship>; 2]>>,
    done: UnboundedSender<u32>,
    arrivals: UnboundedSender<Result<(usize, WTx), String>>,
}

impl Ctx {
    fn queue(&self, node: usize, up: bool) -> Option<&UnboundedSender<Ship>> {
        if up {
            self.queues.get(node).map(|q| &q[0])
        } else if node > 0 {
            self.queues.get(node - 1).map(|q| &q[1])
        } else {
            None
        }
    }

    fn record(&self, id: u32, v: u64, how: &'static str) {
        let mut w = self.world.lock().unwrap();
        let sent_hi = w.sent_hi;
        if let Some(l) = w.logs.get_mut(&id) {
            l.obs.push(Obs { v, sent_hi, how });
        }
    }

    fn error(&self, id: u32, e: String) {
        let mut w = self.world.lock().unwrap();
        if let Some(l) = w.logs.get_mut(&id) {
            l.errors.push(e);
        }
    }

    fn finish(&self, id: u32, end: End) {
        {
            let mut w = self.world.lock().unwrap();
            let sender_dropped = w.sender_dropped;
            if let Some(l) = w.logs.get_mut(&id) {
                if l.end.is_none() {
                    if matches!(end, End::Closed | End::StreamEnd) && !sender_dropped {
                        l.early_closure = true;
                    }
                    l.end = Some(end);
                }
            }
        }
        let _ = self.done.send(id);
    }
}

fn sleep_ms(code: u8) -> u64 {
    [1u64, 10, 100, 1000][code as usize % 4]
}

enum StepOut {
    Nothing,
    Obs(u64, &'static str),
    Closed,
    Error(String),
}

fn copy_out(r: Result<watch::Ref<'_, u64>, watch::RecvError>) -> Result<u64, String> {
    match r {
        Ok(v) => Ok(*v),
        Err(e) => Err(format!("{e:?}")),
    }
}

async fn run_step(rx: &mut WRx, step: Step, last: u64) -> StepOut {
    match step {
        Step::Ticks(n) => {
            ticks(n.max(1) as u32).await;
            StepOut::Nothing
        }
        Step::Sleep(c) => {
            tokio::time::sleep(Duration::from_millis(sleep_ms(c))).await;
            StepOut::Nothing
        }
        Step::Borrow => {
            let r = copy_out(rx.borrow());
            // A reader that only borrows must let the other tasks run.
            tokio::task::yield_now().await;
            match r {
                Ok(v) => StepOut::Obs(v, "borrow"),
                Err(e) => StepOut::Error(e),
            }
        }
        Step::BorrowUpdate => {
            let r = copy_out(rx.borrow_and_update());
            tokio::task::yield_now().await;
            match r {
                Ok(v) => StepOut::Obs(v, "borrow_and_update"),
                Err(e) => StepOut::Error(e),
            }
        }
        Step::HasChanged => {
            let hc = rx.has_changed();
            let out = match hc {
                Ok(true) => match copy_out(rx.borrow_and_update()) {
                    Ok(v) => StepOut::Obs(v, "has_changed+borrow_and_update"),
                    Err(e) => StepOut::Error(e),
                },
                Ok(false) => StepOut::Nothing,
                Err(_) => StepOut::Closed,
            };
            tokio::task::yield_now().await;
            out
        }
        Step::Changed { update } => match rx.changed().await {
            Ok(()) => {
                let r = if update { copy_out(rx.borrow_and_update()) } else { copy_out(rx.borrow()) };
                match r {
                    Ok(v) => StepOut::Obs(v, if update { "changed+borrow_and_update" } else { "changed+borrow" }),
                    Err(e) => StepOut::Error(e),
                }
            }
            Err(_) => StepOut::Closed,
        },
        Step::WaitFor(d) => {
            let target = last + d.max(1) as u64;
            let r = rx.wait_for(move |v| *v >= target).await.map(|r| *r);
            match r {
                Ok(v) if v >= target => StepOut::Obs(v, "wait_for"),
                Ok(v) => StepOut::Error(format!("wait_for(>= {target}) returned {v}")),
                Err(watch::WaitForError::Closed) => StepOut::Closed,
                Err(e) => StepOut::Error(format!("{e:?}")),
            }
        }
    }
}

enum Ev {
    Cmd(Option<Cmd>),
    Step(StepOut),
}

/// Reader actor of one receiver at one endpoint.
fn reader_task(ctx: Ctx, node: usize, rx: WRx, t: Ticket) -> Pin<Box<dyn Future<Output = ()> + Send>> {
    Box::pin(async move {
        let Ticket { id, script, mut pos, mut cmd_rx, mut last, mut cycle_wait, .. } = t;
        let spec = ctx.readers[script % ctx.readers.len()].clone();
        let n = spec.steps.len();
        let mut rx = rx;
        let mut cmds_open = true;
        {
            let mut w = ctx.world.lock().unwrap();
            if let Some(l) = w.logs.get_mut(&id) {
                l.node = Some(node);
            }
        }
        loop {
            if let Some(sa) = spec.stream_after {
                if pos >= sa as usize {
                    stream_task(ctx, id, rx, spec, pos, cmd_rx, cmds_open).await;
                    return;
                }
            }
            // A script cycle without a blocking read gets a forced `changed()` so that the reader
            // neither spins nor misses the closure.
            let forced = pos > 0 && pos % n == 0 && !cycle_wait;
            let step = if forced {
                cycle_wait = true;
                Step::Changed { update: true }
            } else {
                if pos % n == 0 {
                    cycle_wait = false;
                }
                spec.steps[pos % n]
            };
            let ev = {
                let fut = run_step(&mut rx, step, last);
                tokio::pin!(fut);
                if cmds_open {
                    tokio::select! {
                        biased;
                        c = cmd_rx.recv() => Ev::Cmd(c),
                        r = &mut fut => Ev::Step(r),
                    }
                } else {
                    Ev::Step(fut.await)
                }
            };
            match ev {
                Ev::Cmd(None) => {
                    cmds_open = false;
                    if forced {
                        cycle_wait = false;
                    }
                }
                Ev::Cmd(Some(cmd)) => {
                    // The interrupted step is repeated later.
                    if forced {
                        cycle_wait = false;
                    }
                    match cmd {
                        Cmd::Clone { id: new_id, script, cmd_rx: new_cmd_rx } => {
                            let c = rx.clone();
                            {
                                let mut w = ctx.world.lock().unwrap();
                                if let Some(l) = w.logs.get_mut(&new_id) {
                                    l.floor = last;
                                    l.node = Some(node);
                                }
                            }
                            let t = Ticket { id: new_id, script, pos: 0, cmd_rx: new_cmd_rx, last, cycle_wait: true, ship_sent_hi: 0 };
                            spawn_actor(reader_task(ctx.clone(), node, c, t));
                        }
                        Cmd::Move { up, hops } => {
                            if ctx.hops == 0 {
                                continue;
                            }
                            let up = if up && node >= ctx.hops {
                                false
                            } else if !up && node == 0 {
                                true
                            } else {
                                up
                            };
                            let room = if up { ctx.hops - node } else { node };
                            let nh = (hops.max(1) as usize).min(room);
                            {
                                let mut w = ctx.world.lock().unwrap();
                                let ship_sent_hi = w.sent_hi;
                                w.rx_transfers += 1;
                                if let Some(l) = w.logs.get_mut(&id) {
                                    l.node = None;
                                    l.transfers += 1;
                                }
                                w.tickets.insert(id, Ticket { id, script, pos, cmd_rx, last, cycle_wait, ship_sent_hi });
                            }
                            let q = ctx.queue(node, up).expect("queue exists");
                            if q.send(Ship::Rx { id, hops_left: nh as u8 - 1, rx }).is_err() {
                                ctx.finish(id, End::Lost);
                            }
                            return;
                        }
                        Cmd::Drop => {
                            drop(rx);
                            ctx.finish(id, End::Dropped);
                            return;
                        }
                    }
                }
                Ev::Step(out) => {
                    if !forced {
                        pos += 1;
                        if matches!(step, Step::Changed { .. } | Step::WaitFor(_)) {
                            cycle_wait = true;
                        }
                    }
                    match out {
                        StepOut::Nothing => {}
                        StepOut::Obs(v, how) => {
                            ctx.record(id, v, how);
                            last = v;
                        }
                        StepOut::Closed => {
                            match copy_out(rx.borrow()) {
                                Ok(v) => ctx.record(id, v, "borrow-after-closure"),
                                Err(e) => ctx.error(id, e),
                            }
                            ctx.finish(id, End::Closed);
                            return;
                        }
                        StepOut::Error(e) => {
                            ctx.error(id, e);
                            // Errors are values of the channel: keep reading until closure, but
                            // not forever.
                            let n_err = ctx.world.lock().unwrap().logs.get(&id).map(|l| l.errors.len()).unwrap_or(0);
                            if n_err > 8 {
                                ctx.finish(id, End::Errored);
                                return;
                            }
                            if rx.changed().await.is_err() {
                                ctx.finish(id, End::Errored);
                                return;
                            }
                        }
                    }
                }
            }
        }
    })
}

/// A clone that cannot be created (its parent has become a stream): neither can the clones that
/// were already requested from it.
fn skip_clone(ctx: &Ctx, id: u32, mut cmd_rx: UnboundedReceiver<Cmd>) {
    ctx.finish(id, End::Skipped);
    cmd_rx.close();
    while let Ok(cmd) = cmd_rx.try_recv() {
        if let Cmd::Clone { id, cmd_rx, .. } = cmd {
            skip_clone(ctx, id, cmd_rx);
        }
    }
}

/// Reader of a receiver wrapped into a `ReceiverStream` (cannot be cloned or moved any more).
async fn stream_task(ctx: Ctx, id: u32, rx: WRx, spec: Reader, mut pos: usize, mut cmd_rx: UnboundedReceiver<Cmd>, mut cmds_open: bool) {
    {
        let mut w = ctx.world.lock().unwrap();
        if let Some(l) = w.logs.get_mut(&id) {
            l.is_stream = true;
        }
    }
    let mut st = watch::ReceiverStream::new(rx);
    let n = spec.steps.len();
    enum SEv {
        Cmd(Option<Cmd>),
        Item(Option<Result<u64, watch::RecvError>>),
    }
    loop {
        let ev = if cmds_open {
            tokio::select! {
                biased;
                c = cmd_rx.recv() => SEv::Cmd(c),
                i = st.next() => SEv::Item(i),
            }
        } else {
            SEv::Item(st.next().await)
        };
        match ev {
            SEv::Cmd(None) => cmds_open = false,
            SEv::Cmd(Some(Cmd::Clone { id: new_id, cmd_rx: new_cmd_rx, .. })) => skip_clone(&ctx, new_id, new_cmd_rx),
            SEv::Cmd(Some(Cmd::Move { .. })) => {}
            SEv::Cmd(Some(Cmd::Drop)) => {
                drop(st);
                ctx.finish(id, End::Dropped);
                return;
            }
            SEv::Item(Some(Ok(v))) => {
                ctx.record(id, v, "stream");
                // Pacing from the script.
                match spec.steps[pos % n] {
                    Step::Ticks(k) => ticks(k.max(1) as u32).await,
                    Step::Sleep(c) => tokio::time::sleep(Duration::from_millis(sleep_ms(c))).await,
                    _ => {}
                }
                pos += 1;
            }
            SEv::Item(Some(Err(e))) => {
                ctx.error(id, format!("{e:?}"));
                let n_err = ctx.world.lock().unwrap().logs.get(&id).map(|l| l.errors.len()).unwrap_or(0);
                if n_err > 8 {
                    ctx.finish(id, End::Errored);
                    return;
                }
            }
            SEv::Item(None) => {
                ctx.finish(id, End::StreamEnd);
                return;
            }
        }
    }
}

/// Sending side of one direction of one connection: ships halves one after the other.
async fn porter_send(ctx: Ctx, mut q: UnboundedReceiver<Ship>, mut btx: base::Sender<Half, Codec>, deadline: u64) {
    while let Some(ship) = q.recv().await {
        let (half, id) = match ship {
            Ship::Rx { id, hops_left, rx } => (Half::Rx { id, hops_left, rx }, Some(id)),
            Ship::Tx(tx) => (Half::Tx(tx), None),
        };
        let res = sim::within(deadline, btx.send(half)).await;
        let err = match res {
            Ok(Ok(())) => None,
            Ok(Err(e)) => Some(format!("sending a half over the base channel failed: {e}")),
            Err(()) => Some("sending a half over the base channel hangs".to_string()),
        };
        if let Some(e) = err {
            {
                let mut w = ctx.world.lock().unwrap();
                if w.healthy {
                    w.fails.push(("C15/transfer-failed".into(), e.clone()));
                }
            }
            match id {
                Some(id) => ctx.finish(id, End::Lost),
                None => {
                    let _ = ctx.arrivals.send(Err(e));
                }
            }
        }
    }
}

/// Receiving side: lands halves at `node` or relays them further in the same direction.
async fn porter_recv(ctx: Ctx, mut brx: base::Receiver<Half, Codec>, node: usize, up: bool) {
    loop {
        match brx.recv().await {
            Ok(Some(Half::Rx { id, hops_left, rx })) => {
                let onward = if hops_left > 0 { ctx.queue(node, up) } else { None };
                match onward {
                    Some(q) => {
                        ctx.world.lock().unwrap().relays += 1;
                        if q.send(Ship::Rx { id, hops_left: hops_left - 1, rx }).is_err() {
                            ctx.finish(id, End::Lost);
                        }
                    }
                    None => {
                        let ticket = {
                            let mut w = ctx.world.lock().unwrap();
                            let t = w.tickets.remove(&id);
                            if let Some(t) = &t {
                                if w.sent_hi > t.ship_sent_hi {
                                    w.inflight_rx = true;
                                }
                            }
                            t
                        };
                        if let Some(t) = ticket {
                            spawn_actor(reader_task(ctx.clone(), node, rx, t));
                        }
                    }
                }
            }
            Ok(Some(Half::Tx(tx))) => {
                let _ = ctx.arrivals.send(Ok((node, tx)));
            }
            Ok(None) => break,
            Err(e) => {
                let mut w = ctx.world.lock().unwrap();
                if w.healthy {
                    w.fails.push(("C15/transfer-failed".into(), format!("receiving a half from the base channel failed: {e}")));
                }
                break;
            }
        }
    }
}

enum Src {
    Remoc(WTx),
    Tokio(tokio::sync::watch::Sender<u64>, Vec<watch::Forwarding>),
}

impl Src {
    /// Returns whether the value was stored in the channel.
    fn send(&self, v: u64, api: Api) -> bool {
        match self {
            Src::Remoc(tx) => match api {
                Api::Send => tx.send(v).is_ok(),
                Api::Replace => {
                    let _ = tx.send_replace(v);
                    true
                }
                Api::Modify => {
                    tx.send_modify(|x| *x = v);
                    true
                }
            },
            Src::Tokio(tx, _) => match api {
                Api::Send => tx.send(v).is_ok(),
                Api::Replace => {
                    let _ = tx.send_replace(v);
                    true
                }
                Api::Modify => {
                    tx.send_modify(|x| *x = v);
                    true
                }
            },
        }
    }
}

pub struct ExecOut {
    pub fails: Vec<(String, String)>,
    pub nontrivial: bool,
    pub classes: Vec<String>,
    pub frames: u64,
    pub inconclusive: bool,
}

fn pause_future(t: u8, ms: u16) -> impl Future<Output = ()> {
    async move {
        if t > 0 {
            ticks(t as u32).await;
        }
        if ms > 0 {
            tokio::time::sleep(Duration::from_millis(ms as u64)).await;
        }
        if t == 0 && ms == 0 {
            tokio::task::yield_now().await;
        }
    }
}

async fn execute(case: &Case) -> ExecOut {
    let mut out = ExecOut { fails: vec![], nontrivial: false, classes: vec![], frames: 0, inconclusive: false };
    let hops = case.hops.min(3) as usize;
    let nodes = hops + 1;
    let healthy = case.fault.is_none();
    let cap_ms = gen::delay_cap_ms(&case.cfg_a, &case.cfg_b);
    let deadline = case.sched.deadline_s(3000, cap_ms);

    let world = Arc::new(Mutex::new(World {
        sent_hi: 0,
        stored: vec![true],
        last_stored: 0,
        sender_dropped: false,
        logs: BTreeMap::new(),
        tickets: BTreeMap::new(),
        inflight_rx: false,
        inflight_tx: false,
        relays: 0,
        rx_transfers: 0,
        tx_transfers: 0,
        healthy,
        fails: vec![],
    }));

    // Connections and base channels.
    let mut links: Vec<SimLink> = Vec::new();
    let mut keep: Vec<Box<dyn std::any::Any + Send>> = Vec::new();
    let mut queues: Vec<[UnboundedSender<Ship>; 2]> = Vec::new();
    let mut porter_parts = Vec::new();
    for l in 0..hops {
        let faults = match &case.fault {
            Some(f) if f.link as usize % hops == l => {
                vec![Fault { dir: f.dir % 2, after: 10 + f.after as u32, kind: if f.stream_error { FaultKind::StreamError } else { FaultKind::Eof } }]
            }
            _ => vec![],
        };
        // Odd connections swap the configurations.
        let (ca, cb) = if l % 2 == 0 { (&case.cfg_a, &case.cfg_b) } else { (&case.cfg_b, &case.cfg_a) };
        let (link, a, b) = match sim::within(3000, connect_pair(ca, cb, &case.sched, faults)).await {
            Ok(Ok(x)) => x,
            Ok(Err(e)) => {
                if healthy {
                    out.fails.push(("C15/setup".into(), e));
                }
                return out;
            }
            Err(()) => {
                if healthy {
                    out.fails.push(("C15/setup".into(), "connection setup hangs".into()));
                }
                return out;
            }
        };
        let gen::Side { client: ca_, listener: la_, run: ra_ } = a;
        let gen::Side { client: cb_, listener: mut lb_, run: rb_ } = b;
        let (conn, acc) = tokio::join!(sim::within(3000, ca_.connect()), sim::within(3000, lb_.accept()));
        let ((tx_a, rx_a), (tx_b, rx_b)) = match (conn, acc) {
            (Ok(Ok(c)), Ok(Ok(Some(x)))) => (c, x),
            _ => {
                if healthy {
                    out.fails.push(("C15/setup".into(), "base port setup failed".into()));
                }
                return out;
            }
        };
        let (q_up_tx, q_up_rx) = unbounded_channel::<Ship>();
        let (q_dn_tx, q_dn_rx) = unbounded_channel::<Ship>();
        queues.push([q_up_tx, q_dn_tx]);
        porter_parts.push((l, q_up_rx, q_dn_rx, base::Sender::<Half, Codec>::new(tx_a), base::Receiver::<Half, Codec>::new(rx_a), base::Sender::<Half, Codec>::new(tx_b), base::Receiver::<Half, Codec>::new(rx_b)));
        links.push(link);
        keep.push(Box::new((ca_, la_, ra_, cb_, lb_, rb_)));
    }
    let (done_tx, mut done_rx) = unbounded_channel::<u32>();
    let (arr_tx, mut arr_rx) = unbounded_channel::<Result<(usize, WTx), String>>();
    let ctx = Ctx { world: world.clone(), readers: Arc::new(case.readers.clone()), hops, queues: Arc::new(queues), done: done_tx, arrivals: arr_tx };
    for (l, q_up_rx, q_dn_rx, btx_a, brx_a, btx_b, brx_b) in porter_parts {
        spawn_actor(porter_send(ctx.clone(), q_up_rx, btx_a, deadline));
        spawn_actor(porter_recv(ctx.clone(), brx_b, l + 1, true));
        spawn_actor(porter_send(ctx.clone(), q_dn_rx, btx_b, deadline));
        spawn_actor(porter_recv(ctx.clone(), brx_a, l, false));
    }

    // The channel.
    let mut tx_node = case.origin as usize % nodes;
    let mut next_id: u32 = 0;
    // Driver-side registry: receivers that were not dropped by an op.
    let mut alive: Vec<(u32, UnboundedSender<Cmd>)> = Vec::new();
    let mut all_ids: Vec<u32> = Vec::new();
    let n_scripts = case.readers.len();

    let new_rx = |rx: WRx, script: usize, floor: u64, node: usize, next_id: &mut u32, alive: &mut Vec<(u32, UnboundedSender<Cmd>)>, all_ids: &mut Vec<u32>| {
        let id = *next_id;
        *next_id += 1;
        let (ctx_tx, crx) = unbounded_channel::<Cmd>();
        world.lock().unwrap().logs.insert(id, RxLog::new(floor, Some(node)));
        alive.push((id, ctx_tx));
        all_ids.push(id);
        let t = Ticket { id, script, pos: 0, cmd_rx: crx, last: floor, cycle_wait: true, ship_sent_hi: 0 };
        spawn_actor(reader_task(ctx.clone(), node, rx, t));
    };

    let mut src = if case.tokio_src {
        let (ttx, trx) = tokio::sync::watch::channel(0u64);
        let (fwd, rx) = watch::forward::<u64, Codec>(trx);
        new_rx(rx, 0, 0, tx_node, &mut next_id, &mut alive, &mut all_ids);
        Some(Src::Tokio(ttx, vec![fwd]))
    } else {
        let (tx, rx) = watch::channel::<u64, Codec>(0);
        new_rx(rx, 0, 0, tx_node, &mut next_id, &mut alive, &mut all_ids);
        Some(Src::Remoc(tx))
    };

    let mut stats: BTreeMap<&'static str, u32> = BTreeMap::new();
    let mut prev_was_send = false;
    let mut send_failed = 0u32;
    let mut sender_lost = false;

    let mut send_failed_live = 0u32;
    let do_send = |src: &Src, api: Api, send_failed: &mut u32, send_failed_live: &mut u32, alive: &Vec<(u32, UnboundedSender<Cmd>)>| {
        let mut w = world.lock().unwrap();
        let v = w.sent_hi + 1;
        w.sent_hi = v;
        let ok = src.send(v, api);
        w.stored.push(ok);
        if ok {
            w.last_stored = v;
        } else {
            *send_failed += 1;
            if alive.iter().any(|(id, _)| w.logs.get(id).map(|l| l.end.is_none()).unwrap_or(false)) {
                *send_failed_live += 1;
            }
        }
    };

    'ops: for op in &case.ops {
        let Some(s) = src.as_ref() else { break };
        let mut this_is_send = false;
        match op {
            Op::Send { n, api, gap } => {
                if let Src::Remoc(tx) = s {
                    let b = *tx.borrow();
                    let ls = world.lock().unwrap().last_stored;
                    if b != ls {
                        out.fails.push(("C15/sender-borrow".into(), format!("Sender::borrow() gives {b}, the most recently sent value is {ls}")));
                    }
                }
                for i in 0..*n {
                    do_send(s, *api, &mut send_failed, &mut send_failed_live, &alive);
                    if *gap > 0 && i + 1 < *n {
                        ticks(*gap as u32).await;
                    }
                }
                *stats.entry("updates").or_insert(0) += *n as u32;
                this_is_send = true;
            }
            Op::Pause { ticks: t, ms } => pause_future(*t, *ms).await,
            Op::CloneRx { sel, script } => {
                if !alive.is_empty() {
                    let (_, parent) = &alive[*sel as usize % alive.len()];
                    let id = next_id;
                    next_id += 1;
                    let (ctx_tx, crx) = unbounded_channel::<Cmd>();
                    world.lock().unwrap().logs.insert(id, RxLog::new(0, None));
                    if parent.send(Cmd::Clone { id, script: *script as usize % n_scripts, cmd_rx: crx }).is_ok() {
                        alive.push((id, ctx_tx));
                        all_ids.push(id);
                        *stats.entry("clones").or_insert(0) += 1;
                    } else {
                        world.lock().unwrap().logs.remove(&id);
                    }
                }
            }
            Op::Subscribe { script } => {
                let floor = world.lock().unwrap().last_stored;
                let rx = match src.as_mut().unwrap() {
                    Src::Remoc(tx) => tx.subscribe(),
                    Src::Tokio(ttx, fwds) => {
                        let (fwd, rx) = watch::forward::<u64, Codec>(ttx.subscribe());
                        fwds.push(fwd);
                        rx
                    }
                };
                new_rx(rx, *script as usize % n_scripts, floor, tx_node, &mut next_id, &mut alive, &mut all_ids);
                *stats.entry("subscribes").or_insert(0) += 1;
            }
            Op::MoveRx { sel, up, hops: h } => {
                if !alive.is_empty() && hops > 0 {
                    let (_, c) = &alive[*sel as usize % alive.len()];
                    let _ = c.send(Cmd::Move { up: *up, hops: *h });
                }
            }
            Op::MoveTx { up } => {
                if hops > 0 && matches!(s, Src::Remoc(_)) {
                    let up = if *up && tx_node >= hops {
                        false
                    } else if !*up && tx_node == 0 {
                        true
                    } else {
                        *up
                    };
                    // In flight: the previous op was an update (no scheduler pass since) and a
                    // live receiver is at another endpoint or in transit.
                    {
                        let mut w = world.lock().unwrap();
                        let remote = alive.iter().any(|(id, _)| w.logs.get(id).map(|l| l.end.is_none() && l.node != Some(tx_node)).unwrap_or(false));
                        if prev_was_send && remote {
                            w.inflight_tx = true;
                        }
                        w.tx_transfers += 1;
                    }
                    let Some(Src::Remoc(tx)) = src.take() else { unreachable!() };
                    let q = ctx.queue(tx_node, up).expect("queue exists");
                    if q.send(Ship::Tx(tx)).is_err() {
                        sender_lost = true;
                        break 'ops;
                    }
                    match sim::within(deadline, arr_rx.recv()).await {
                        Ok(Some(Ok((node, tx)))) => {
                            tx_node = node;
                            src = Some(Src::Remoc(tx));
                        }
                        Ok(Some(Err(_))) | Ok(None) => {
                            sender_lost = true;
                            break 'ops;
                        }
                        Err(()) => {
                            if healthy {
                                out.fails.push(("C15/transfer-hangs".into(), format!("the sender half did not arrive at the neighbouring endpoint within {deadline} virtual s")));
                            }
                            sender_lost = true;
                            break 'ops;
                        }
                    }
                }
            }
            Op::DropRx { sel } => {
                if !alive.is_empty() {
                    let (_, c) = alive.remove(*sel as usize % alive.len());
                    let _ = c.send(Cmd::Drop);
                    *stats.entry("drops").or_insert(0) += 1;
                }
            }
        }
        prev_was_send = this_is_send;
    }

    // Last updates, then the sender is dropped at once.
    if let Some(s) = src.take() {
        for _ in 0..case.final_burst {
            do_send(&s, case.final_api, &mut send_failed, &mut send_failed_live, &alive);
        }
        world.lock().unwrap().sender_dropped = true;
        drop(s);
    } else {
        world.lock().unwrap().sender_dropped = true;
    }

    // Wait until every receiver that was not dropped has seen the closure.
    let wait_s = if healthy && !sender_lost { deadline } else { 600 };
    let t_end = tokio::time::Instant::now() + Duration::from_secs(wait_s);
    let mut timed_out = false;
    loop {
        let pending: Vec<u32> = {
            let w = world.lock().unwrap();
            alive.iter().map(|(id, _)| *id).filter(|id| w.logs.get(id).map(|l| l.end.is_none()).unwrap_or(false)).collect()
        };
        if pending.is_empty() {
            break;
        }
        match tokio::time::timeout_at(t_end, done_rx.recv()).await {
            Ok(Some(_)) => {}
            Ok(None) => break,
            Err(_) => {
                timed_out = true;
                break;
            }
        }
    }
    out.frames = links.iter().map(|l| l.tap_len() as u64 / 2).sum();

    // ---------------------------------------------------------------------------------------
    // Oracle over the recorded history.
    // ---------------------------------------------------------------------------------------
    let w = world.lock().unwrap();
    if std::env::var("VERIF_DEBUG").is_ok() {
        eprintln!("--- sent_hi {} last_stored {} stored {:?} timed_out {timed_out} tx_node {tx_node}", w.sent_hi, w.last_stored, w.stored);
        for (id, l) in &w.logs {
            eprintln!("rx {id}: floor {} node {:?} transfers {} stream {} end {:?} errors {:?}", l.floor, l.node, l.transfers, l.is_stream, l.end, l.errors);
            eprintln!("      obs {:?}", l.obs.iter().map(|o| format!("{}@{}:{}", o.v, o.sent_hi, o.how)).collect::<Vec<_>>());
        }
    }
    out.fails.extend(w.fails.iter().cloned());
    let last = w.last_stored;
    let mut coalesced = false;
    let mut n_stream = 0;
    let mut n_moved = 0;
    let mut max_transfers = 0;
    let mut early_closure = false;
    for id in &all_ids {
        let Some(l) = w.logs.get(id) else { continue };
        let mut prev = l.floor;
        let seq: Vec<u64> = l.obs.iter().map(|o| o.v).collect();
        for (k, o) in l.obs.iter().enumerate() {
            let stored = w.stored.get(o.v as usize).copied().unwrap_or(false);
            if !stored || o.v > o.sent_hi {
                out.fails.push((
                    "C15/unsent-value".into(),
                    format!("receiver {id} observed {} via {} (observation {k}); values issued so far 1..={}, that value was {}; observed sequence {seq:?}", o.v, o.how, o.sent_hi, if stored { "not yet sent" } else { "never stored by a successful send" }),
                ));
                break;
            }
            if o.v < prev {
                out.fails.push((
                    "C15/went-backwards".into(),
                    format!("receiver {id} observed {} via {} after {} (observation {k}; lower bound at creation {}); observed sequence {seq:?}; transfers {}", o.v, o.how, prev, l.floor, l.transfers),
                ));
                break;
            }
            // Coalesced: a value stored in the channel lies strictly between two consecutive
            // observations, i.e. this receiver skipped it.
            if o.v > prev + 1 && ((prev + 1)..o.v).any(|x| w.stored.get(x as usize).copied().unwrap_or(false)) {
                coalesced = true;
            }
            prev = o.v;
        }
        if l.is_stream {
            n_stream += 1;
        }
        if l.transfers > 0 {
            n_moved += 1;
        }
        max_transfers = max_transfers.max(l.transfers);
        early_closure |= l.early_closure;
        let required = alive.iter().any(|(a, _)| a == id);
        if healthy && !sender_lost && !l.errors.is_empty() {
            out.fails.push(("C15/recv-error".into(), format!("receiver {id} got errors on healthy connections: {:?}; observed sequence {seq:?}", l.errors)));
        }
        if healthy && !sender_lost && required {
            let final_v = l.obs.last().map(|o| o.v);
            match &l.end {
                Some(End::Closed) | Some(End::StreamEnd) => {
                    if final_v != Some(last) {
                        out.fails.push((
                            "C15/lost-update".into(),
                            format!(
                                "receiver {id} ({}; transfers {}; endpoint {:?}) saw the closure having observed {final_v:?} last, but the last value sent is {last}; observed sequence {seq:?} via {:?}",
                                if l.is_stream { "stream" } else { "receiver" },
                                l.transfers,
                                l.node,
                                l.obs.last().map(|o| o.how)
                            ),
                        ));
                    }
                }
                Some(End::Skipped) | Some(End::Dropped) => {}
                Some(End::Lost) | Some(End::Errored) => {
                    out.fails.push(("C15/recv-error".into(), format!("receiver {id} ended with {:?} on healthy connections; errors {:?}", l.end, l.errors)));
                }
                None => {
                    let in_transit = l.node.is_none();
                    if final_v != Some(last) || in_transit {
                        out.fails.push((
                            "C15/lost-update".into(),
                            format!(
                                "receiver {id} ({}{}; transfers {}) never observed the last value {last} within {wait_s} virtual s after the sender was dropped; observed sequence {seq:?}",
                                if l.is_stream { "stream" } else { "receiver" },
                                if in_transit { ", still in transit" } else { "" },
                                l.transfers
                            ),
                        ));
                    } else {
                        out.fails.push((
                            "C15/no-closure".into(),
                            format!("receiver {id} observed the last value {last} but not the closure within {wait_s} virtual s after the sender was dropped (timed out: {timed_out}); observed sequence {seq:?}"),
                        ));
                    }
                }
            }
        }
    }
    let inflight = w.inflight_rx || w.inflight_tx;
    out.nontrivial = coalesced && inflight;
    out.inconclusive = false;

    // Classes.
    let mut c = |s: String| out.classes.push(s);
    c(format!("connections:{hops}"));
    c(if case.tokio_src { "source:tokio-forward".into() } else { "source:remoc".into() });
    if !healthy {
        c("fault:safety-only".into());
    }
    if sender_lost {
        c("sender-lost-in-fault".into());
    }
    if coalesced {
        c("coalesced".into());
    }
    if w.inflight_rx {
        c("inflight:receiver-transfer".into());
    }
    if w.inflight_tx {
        c("inflight:sender-transfer".into());
    }
    if w.rx_transfers > 0 {
        c("receiver-moved".into());
    }
    if w.relays > 0 {
        c("receiver-relayed-multi-hop".into());
    }
    if max_transfers >= 2 {
        c("receiver-moved-repeatedly".into());
    }
    if w.tx_transfers > 0 {
        c(format!("sender-moved:{}", w.tx_transfers.min(3)));
    }
    if n_stream > 0 {
        c("stream-reader".into());
    }
    if stats.get("clones").copied().unwrap_or(0) > 0 {
        c("clone".into());
    }
    if stats.get("subscribes").copied().unwrap_or(0) > 0 {
        c("subscribe".into());
    }
    if stats.get("drops").copied().unwrap_or(0) > 0 {
        c("receiver-dropped".into());
    }
    if send_failed > 0 {
        c("send-returned-error".into());
    }
    if case.final_burst > 0 {
        c("update-right-before-drop".into());
    }
    if early_closure {
        c(format!("closure-before-sender-drop:{}", if healthy && !sender_lost { "healthy" } else { "fault" }));
    }
    if send_failed_live > 0 {
        c(format!("send-error-with-live-receiver:{}", if healthy && !sender_lost { "healthy" } else { "fault" }));
    }
    let _ = n_moved;
    c(format!("receivers:{}", match all_ids.len() { 0..=1 => "1", 2..=3 => "2-3", _ => "4+" }));
    c(format!("updates:{}", match w.sent_hi { 0 => "0", 1..=5 => "1-5", 6..=20 => "6-20", _ => "21+" }));
    drop(w);
    drop(keep);
    out
}

pub fn run(case: &Case) -> Outcome {
    let tape = case.sched.tape();
    let res = sim::run_sim(case.sched.tokio_seed, &tape, case.sched.defer, execute(case));
    let mut out = Outcome::default();
    out.frames = res.frames;
    out.inconclusive = res.inconclusive;
    if let Some((s, m)) = res.fails.first() {
        out.fail(s.clone(), m.clone());
    }
    for c in res.classes {
        out.class(c);
    }
    out.nontrivial = res.nontrivial;
    out
}

pub const RULE: &str = "case = (0..3 chmux connections in a line over simulated transports with generated Cfg/schedule, watch channel of counter values created at a generated endpoint either by watch::channel or by watch::forward of a tokio watch, op history: bursts of send/send_replace/send_modify with or without scheduler passes in between, pauses, clone a receiver, subscribe at the sender, send a receiver 1..3 connections away (re-sent at every intermediate endpoint), send the sender to the neighbouring endpoint, drop a receiver; per receiver a generated read script of borrow/borrow_and_update/has_changed/changed/wait_for/ReceiverStream with pauses; 0..3 updates synchronously before the sender is dropped; optional transport fault). Oracle over the recorded history: every observed value was stored by a successful send (or is the initial value) and had been issued when observed; per logical receiver (followed across transfers; a clone starts at its parent's last observation, a subscriber at the latest value) the observed sequence is non-decreasing; Sender::borrow equals the latest value; without fault every receiver not dropped observes the closure within the virtual deadline and its last observation is the last value sent; no receive errors on healthy connections. With a fault only the safety part is checked. non-trivial = (some receiver skipped at least one sent value between two consecutive observations) AND (a receiver landed after a transfer during which the sender issued an update, OR the sender was shipped directly after an update without any scheduler pass while a live receiver was at another endpoint or in transit); distinct = distinct case hash";

pub fn main(tier: Tier, seed: u64) -> Report {
    let mut rep = Report::new("C15", tier, seed);
    rep.rule = RULE.into();
    rep.assumptions = vec![
        "single-threaded deterministic simulation; task-level interleavings only (poll deferral hook + transport delays)".into(),
        "a receiver sent to another endpoint is treated as the same logical receiver: observations after the transfer must not be older than those before it".into(),
        "a value whose send() returned an error counts as not sent; send_replace/send_modify always count as sent".into(),
        "with a transport fault only 'observed values were sent, in order' is checked".into(),
    ];
    let regress: Vec<Case> = runner::load_regress::<Case>("C15", "watch").into_iter().map(|(_, c)| c).collect();
    if !regress.is_empty() {
        runner::run_cases(&mut rep, "regress-watch", regress, run);
    }
    runner::run_generated(&mut rep, "watch", tier.pick(10_000, 300_000), || strategy(tier), run);
    rep
}

pub fn replay(_part: &str, case: serde_json::Value) -> (Option<runner::Failure>, u32, u32) {
    let n = runner::replay_times(3);
    let c: Case = serde_json::from_value(case).expect("replay case does not parse as C15 case");
    let (f, h) = runner::replay_case(&c, run, n);
    (f, h, n)
}
