//! C15 — Watch channels converge to the latest value and never go backwards.
//!
//! A case is a small network of 1..4 endpoints in a line (0..3 chmux connections over simulated
//! transports), one watch channel (value = counter) created at one endpoint, and a history of ops:
//! bursts of updates (send / send_replace / send_modify), pauses, cloning a receiver, subscribing at
//! the sender, moving a receiver 1..3 connections away (re-sent at every intermediate endpoint),
//! moving the sender to the neighbouring endpoint, dropping a receiver. Every receiver is read by
//! its own actor following a generated script of read calls (borrow, borrow_and_update,
//! has_changed, changed, wait_for, ReceiverStream). The sender is dropped immediately after the
//! last update.
//!
//! Undecodable values. The value type `Val` carries the counter, a marker and padding. Its custom
//! `Deserialize` rejects marked values (the sender's endpoint serialises them fine: version skew),
//! and padded values exceed the `max_item_size` (`SMALL`) of every receiver that was transferred
//! (a receiver is serialised as `Receiver<_, _, BIG>` and deserialised as `Receiver<_, _, SMALL>`,
//! so the sending side accepts the item and the receiving side refuses it). Both yield a NON-FINAL
//! receive error for that value only; later values must still arrive.

use futures::StreamExt;
use proptest::prelude::*;
use serde::{Deserialize, Serialize};
use std::{
    collections::BTreeMap,
    future::Future,
    pin::Pin,
    sync::{Arc, Mutex},
    time::Duration,
};
use tokio::sync::mpsc::{unbounded_channel, UnboundedReceiver, UnboundedSender};

use crate::engine::{
    gen::{self, connect_pair, sched, GCfg, Sched},
    link::{Fault, FaultKind, SimLink},
    runner::{self, Outcome, Report, Tier},
    sim::{self, spawn_actor, ticks},
};
use remoc::rch::{base, watch};

/// Generator switch reserved for requirement 7 of the brief (exclusion of the trigger of a genuine
/// finding) for the receiver-side part. No genuine finding there: nothing is excluded.
pub const EXCLUDE_KNOWN_TRIGGER: bool = false;

/// Values whose `Serialize` fails (a failure on the SENDER's endpoint). While `true` the generator
/// never produces them (hand-written replay files can: bit 2 of `Case::bad` + `unsers` masks).
pub const EXCLUDE_SENDER_SIDE_FAILURE: bool = true;

type Codec = remoc::codec::Default;
/// Receive limit of every receiver that arrived over a connection.
pub const SMALL: usize = 384;
/// Limit with which receivers are serialised (the sending side of the forwarding uses it).
pub const BIG: usize = remoc::rch::DEFAULT_MAX_ITEM_SIZE;
/// Padding of an oversized value.
pub const PAD: usize = 700;
type WRx = watch::Receiver<Val, Codec, SMALL>;
type WRxBig = watch::Receiver<Val, Codec, BIG>;
type WTx = watch::Sender<Val, Codec>;

/// The watched value: counter, marker, padding.
#[derive(Clone, Debug)]
pub struct Val {
    pub n: u64,
    pub mark: bool,
    pub pad: Vec<u8>,
    /// Not on the wire: `Serialize` fails for this value (sender-side failure, see
    /// `EXCLUDE_SENDER_SIDE_FAILURE`).
    pub unser: bool,
}

#[derive(Serialize)]
#[serde(rename = "Val")]
struct ValOut<'a> {
    n: u64,
    mark: bool,
    pad: &'a [u8],
}

impl Serialize for Val {
    fn serialize<S>(&self, s: S) -> Result<S::Ok, S::Error>
    where
        S: serde::Serializer,
    {
        if self.unser {
            return Err(serde::ser::Error::custom("unserialisable value"));
        }
        ValOut { n: self.n, mark: self.mark, pad: &self.pad }.serialize(s)
    }
}

#[derive(Deserialize)]
#[serde(rename = "Val")]
struct ValWire {
    n: u64,
    mark: bool,
    pad: Vec<u8>,
}

impl<'de> Deserialize<'de> for Val {
    /// Reads the whole value, then rejects it if it is marked ("this endpoint does not understand it").
    fn deserialize<D>(d: D) -> Result<Self, D::Error>
    where
        D: serde::Deserializer<'de>,
    {
        let ValWire { n, mark, pad } = ValWire::deserialize(d)?;
        if mark {
            return Err(serde::de::Error::custom("marked value rejected"));
        }
        Ok(Val { n, mark, pad, unser: false })
    }
}

#[derive(Clone, Copy, Debug, PartialEq, Eq)]
enum Kind {
    Plain,
    /// Rejected by `Deserialize` at every endpoint that receives it over a connection.
    Marked,
    /// Larger than `SMALL`.
    Big,
    /// `Serialize` fails: the value cannot leave the sender's endpoint.
    Unser,
}

fn kind_of(marks: u8, bigs: u8, unsers: u8, i: u8, bad: u8) -> Kind {
    if bad & 4 != 0 && (unsers >> (i % 8)) & 1 != 0 {
        Kind::Unser
    } else if bad & 1 != 0 && (marks >> (i % 8)) & 1 != 0 {
        Kind::Marked
    } else if bad & 2 != 0 && (bigs >> (i % 8)) & 1 != 0 {
        Kind::Big
    } else {
        Kind::Plain
    }
}

fn make_val(n: u64, kind: Kind) -> Val {
    Val { n, mark: kind == Kind::Marked, pad: if kind == Kind::Big { vec![0xa5; PAD] } else { Vec::new() }, unser: kind == Kind::Unser }
}

// ---------------------------------------------------------------------------------------------
// Case
// ---------------------------------------------------------------------------------------------

#[derive(Clone, Copy, Debug, Serialize, Deserialize, PartialEq, Eq, Hash)]
pub enum Api {
    Send,
    Replace,
    Modify,
}

#[derive(Clone, Copy, Debug, Serialize, Deserialize, PartialEq, Eq, Hash)]
pub enum Step {
    /// `borrow()` (does not mark as seen).
    Borrow,
    /// `borrow_and_update()`.
    BorrowUpdate,
    /// `has_changed()`, then `borrow_and_update()` if it reports a change.
    HasChanged,
    /// `changed().await`, then `borrow_and_update()` (update) or `borrow()`.
    Changed { update: bool },
    /// `wait_for(|v| *v >= last observed + d)`, d >= 1.
    WaitFor(u8),
    /// Scheduler passes.
    Ticks(u8),
    /// Virtual sleep (code into 1/10/100/1000 ms).
    Sleep(u8),
}

#[derive(Clone, Debug, Serialize, Deserialize, PartialEq, Eq, Hash)]
pub struct Reader {
    pub steps: Vec<Step>,
    /// After that many completed steps the receiver is wrapped into a `ReceiverStream`.
    pub stream_after: Option<u8>,
}

#[derive(Clone, Debug, Serialize, Deserialize, PartialEq, Eq, Hash)]
pub enum Op {
    /// `n` updates; `gap` = scheduler passes between them (0 = synchronous burst). Bit i of
    /// `marks` / `bigs`: update i is a marked / an oversized value (if enabled by `Case::bad`).
    Send {
        n: u8,
        api: Api,
        gap: u8,
        #[serde(default)]
        marks: u8,
        #[serde(default)]
        bigs: u8,
        /// Bit i: update i cannot be serialised (only if bit 2 of `Case::bad` is set).
        #[serde(default)]
        unsers: u8,
    },
    Pause { ticks: u8, ms: u16 },
    CloneRx { sel: u8, script: u8 },
    Subscribe { script: u8 },
    /// Sends receiver `sel` over 1..3 connections (direction reversed at the end of the line).
    MoveRx { sel: u8, up: bool, hops: u8 },
    /// Sends the sender to the neighbouring endpoint.
    MoveTx { up: bool },
    DropRx { sel: u8 },
}

#[derive(Clone, Debug, Serialize, Deserialize, PartialEq, Eq, Hash)]
pub struct FaultSpec {
    pub link: u8,
    pub dir: u8,
    pub after: u16,
    pub stream_error: bool,
}

#[derive(Clone, Debug, Serialize, Deserialize, PartialEq, Eq, Hash)]
pub struct Case {
    /// Number of connections (endpoints = hops + 1).
    pub hops: u8,
    /// Endpoint at which the channel is created (mod endpoints).
    pub origin: u8,
    /// The source is a `tokio::sync::watch` channel made remote by `watch::forward`.
    pub tokio_src: bool,
    pub cfg_a: GCfg,
    pub cfg_b: GCfg,
    pub sched: Sched,
    pub readers: Vec<Reader>,
    pub ops: Vec<Op>,
    /// Updates sent immediately (synchronously) before the sender is dropped.
    pub final_burst: u8,
    pub final_api: Api,
    /// Transport fault: only the safety part of the oracle applies.
    pub fault: Option<FaultSpec>,
    /// Bit 0: marked values enabled; bit 1: oversized values enabled; bit 2: unserialisable
    /// values enabled.
    #[serde(default)]
    pub bad: u8,
    #[serde(default)]
    pub final_unsers: u8,
    #[serde(default)]
    pub final_marks: u8,
    #[serde(default)]
    pub final_bigs: u8,
}

fn api() -> BoxedStrategy<Api> {
    prop_oneof![3 => Just(Api::Send), 1 => Just(Api::Replace), 1 => Just(Api::Modify)].boxed()
}

fn step() -> BoxedStrategy<Step> {
    prop_oneof![
        2 => Just(Step::Borrow),
        2 => Just(Step::BorrowUpdate),
        1 => Just(Step::HasChanged),
        4 => any::<bool>().prop_map(|update| Step::Changed { update }),
        2 => (1u8..=3).prop_map(Step::WaitFor),
        2 => (1u8..=6).prop_map(Step::Ticks),
        2 => (0u8..=3).prop_map(Step::Sleep),
    ]
    .boxed()
}

fn reader() -> BoxedStrategy<Reader> {
    (proptest::collection::vec(step(), 1..6), prop_oneof![3 => Just(None), 1 => (0u8..=6).prop_map(Some)])
        .prop_map(|(steps, stream_after)| Reader { steps, stream_after })
        .boxed()
}

fn op() -> BoxedStrategy<Op> {
    prop_oneof![
        30 => (1u8..=4, api(), prop_oneof![2 => Just(0u8), 1 => 1u8..=4], mask(), mask())
            .prop_map(|(n, api, gap, marks, bigs)| Op::Send { n, api, gap, marks, bigs, unsers: if EXCLUDE_SENDER_SIDE_FAILURE { 0 } else { marks & bigs } }),
        20 => (0u8..=8, prop_oneof![3 => Just(0u16), 1 => Just(1u16), 1 => Just(20u16), 1 => Just(300u16), 1 => Just(4000u16)])
            .prop_map(|(ticks, ms)| Op::Pause { ticks, ms }),
        8 => (any::<u8>(), any::<u8>()).prop_map(|(sel, script)| Op::CloneRx { sel, script }),
        6 => any::<u8>().prop_map(|script| Op::Subscribe { script }),
        18 => (any::<u8>(), any::<bool>(), 1u8..=3).prop_map(|(sel, up, hops)| Op::MoveRx { sel, up, hops }),
        8 => any::<bool>().prop_map(|up| Op::MoveTx { up }),
        4 => any::<u8>().prop_map(|sel| Op::DropRx { sel }),
    ]
    .boxed()
}

fn mask() -> BoxedStrategy<u8> {
    prop_oneof![3 => Just(0u8), 2 => 0u8..16].boxed()
}

fn cfg() -> BoxedStrategy<GCfg> {
    (prop_oneof![Just(16u32), Just(64u32), Just(1024u32)], prop_oneof![Just(64u32), Just(256u32), Just(4096u32)], 1usize..=4, 1usize..=4, 1usize..=4)
        .prop_map(|(chunk_size, receive_buffer, shared_q, tsend_q, trecv_q)| GCfg {
            chunk_size,
            receive_buffer,
            max_data_size: 1 << 16,
            shared_q,
            tsend_q,
            trecv_q,
            connect_queue: 8,
            max_ports: 256,
            max_received_ports: 16,
            timeout_s: Some(60),
        })
        .boxed()
}

pub fn strategy(tier: Tier) -> BoxedStrategy<Case> {
    let n_ops = tier.pick(20, 32);
    let fault = prop_oneof![
        9 => Just(None),
        1 => (any::<u8>(), 0u8..=1, 0u16..=60, any::<bool>()).prop_map(|(link, dir, after, stream_error)| Some(FaultSpec { link, dir, after, stream_error })),
    ];
    (
        (prop_oneof![1 => Just(0u8), 4 => Just(1u8), 3 => Just(2u8), 3 => Just(3u8)], any::<u8>(), prop_oneof![6 => Just(false), 1 => Just(true)]),
        cfg(),
        cfg(),
        sched(true),
        proptest::collection::vec(reader(), 1..4),
        proptest::collection::vec(op(), 1..n_ops),
        (0u8..=3, api()),
        fault,
        (
            if EXCLUDE_SENDER_SIDE_FAILURE {
                prop_oneof![4 => Just(0u8), 3 => Just(1u8), 1 => Just(2u8), 2 => Just(3u8)].boxed()
            } else {
                prop_oneof![4 => Just(0u8), 3 => Just(1u8), 1 => Just(2u8), 2 => Just(3u8), 2 => Just(4u8), 2 => Just(7u8)].boxed()
            },
            // Often an undecodable value directly before the last (decodable) one.
            prop_oneof![2 => Just(0u8), 2 => Just(1u8), 1 => Just(2u8), 1 => Just(3u8), 1 => 0u8..8],
            prop_oneof![3 => Just(0u8), 1 => Just(1u8), 1 => Just(2u8), 1 => 0u8..8],
        ),
    )
        .prop_map(|((hops, origin, tokio_src), cfg_a, cfg_b, sched, readers, ops, (final_burst, final_api), fault, (bad, final_marks, final_bigs))| Case {
            hops,
            origin,
            tokio_src,
            cfg_a,
            cfg_b,
            sched,
            readers,
            ops,
            final_burst,
            final_api,
            fault: if hops == 0 { None } else { fault },
            bad,
            final_marks,
            final_bigs,
            final_unsers: if EXCLUDE_SENDER_SIDE_FAILURE { 0 } else { final_marks & final_bigs },
        })
        .boxed()
}

// ---------------------------------------------------------------------------------------------
// Recorded history
// ---------------------------------------------------------------------------------------------

#[derive(Clone, Debug)]
enum Seen {
    Val(u64),
    /// A read call returned a receive error (`fin` = `RecvError::is_final`).
    Err { msg: String, fin: bool },
}

#[derive(Clone, Debug)]
struct Obs {
    seen: Seen,
    /// Highest value issued by the sender when the observation was made.
    sent_hi: u64,
    how: &'static str,
}

impl Obs {
    fn show(&self) -> String {
        match &self.seen {
            Seen::Val(v) => format!("{v}"),
            Seen::Err { fin, .. } => (if *fin { "FINAL-ERR" } else { "err" }).to_string(),
        }
    }
}

#[derive(Clone, Debug, PartialEq)]
enum End {
    /// Closure observed (changed / wait_for / has_changed reported it), final borrow recorded.
    Closed,
    /// The stream ended.
    StreamEnd,
    Dropped,
    /// Clone requested from a receiver that had become a stream: never created.
    Skipped,
    /// Lost in a failed transfer (fault cases only).
    Lost,
    /// Reader gave up after too many receive errors.
    Errored,
    /// The item carrying the receiver could not be deserialised at the next endpoint (non-final
    /// error of the harness' base channel): the receiver is gone.
    Undecodable { local: bool, sent_hi: u64 },
}

#[derive(Debug)]
struct RxLog {
    /// Lower bound for the first observation (value visible to the receiver at creation).
    floor: u64,
    /// Observed values and receive errors in the order of the read calls.
    obs: Vec<Obs>,
    end: Option<End>,
    /// Endpoint (None while in transit).
    node: Option<usize>,
    transfers: u32,
    is_stream: bool,
    /// Closure seen while the sender was still alive.
    early_closure: bool,
    /// Sender generation (number of sender transfers started) at creation; a clone inherits it.
    born_gen: u32,
    /// The receiver (or the receiver it was cloned from) arrived over a connection at least once:
    /// it is fed by a receive task with the `SMALL` limit.
    shipped: bool,
}

impl RxLog {
    fn new(floor: u64, node: Option<usize>, born_gen: u32) -> Self {
        RxLog { floor, obs: vec![], end: None, node, transfers: 0, is_stream: false, early_closure: false, born_gen, shipped: false }
    }

    fn n_errors(&self) -> usize {
        self.obs.iter().filter(|o| matches!(o.seen, Seen::Err { .. })).count()
    }
}

enum Cmd {
    Clone { id: u32, script: usize, cmd_rx: UnboundedReceiver<Cmd> },
    Move { up: bool, hops: u8 },
    Drop,
}

/// Harness-side state of a receiver that travels (not serialisable, looked up by id on arrival).
struct Ticket {
    id: u32,
    script: usize,
    pos: usize,
    cmd_rx: UnboundedReceiver<Cmd>,
    last: u64,
    cycle_wait: bool,
    /// `sent_hi` when the transfer started.
    ship_sent_hi: u64,
}

struct World {
    sent_hi: u64,
    /// Number of sender transfers started: receivers created under an older generation are remote.
    tx_gen: u32,
    kinds: Vec<Kind>,
    stored: Vec<bool>,
    last_stored: u64,
    sender_dropped: bool,
    logs: BTreeMap<u32, RxLog>,
    tickets: BTreeMap<u32, Ticket>,
    /// A receiver landed after a transfer during which the sender issued an update.
    inflight_rx: bool,
    inflight_tx: bool,
    relays: u32,
    undecodable_halves: Vec<String>,
    rx_transfers: u32,
    tx_transfers: u32,
    healthy: bool,
    fails: Vec<(String, String)>,
}

/// What the harness' base channels carry, as serialised ...
#[derive(Serialize)]
#[serde(rename = "Half")]
enum HalfOut {
    Rx { id: u32, hops_left: u8, rx: WRxBig },
    Tx(WTx),
    /// Precedes every `Rx` on the same base channel: if the next item cannot be deserialised it is
    /// this receiver that was lost.
    Announce { id: u32, local: bool },
}

/// ... and as deserialised (same layout; the receiver has the `SMALL` receive limit).
#[derive(Deserialize)]
#[serde(rename = "Half")]
enum HalfIn {
    Rx { id: u32, hops_left: u8, rx: WRx },
    Tx(WTx),
    Announce { id: u32, local: bool },
}

enum Ship {
    /// `local`: the receiver was attached to the sender's own channel when it was shipped.
    Rx { id: u32, hops_left: u8, rx: WRx, local: bool },
    Tx(WTx),
}

#[derive(Clone)]
struct Ctx {
    world: Arc<Mutex<World>>,
    readers: Arc<Vec<Reader>>,
    hops: usize,
    /// Per connection l (between endpoints l and l+1): [up queue (l -> l+1), down queue (l+1 -> l)].
    queues: Arc<Vec<[UnboundedSender<Ship>; 2]>>,
    done: UnboundedSender<u32>,
    arrivals: UnboundedSender<Result<(usize, WTx), String>>,
}

impl Ctx {
    fn queue(&self, node: usize, up: bool) -> Option<&UnboundedSender<Ship>> {
        if up {
            self.queues.get(node).map(|q| &q[0])
        } else if node > 0 {
            self.queues.get(node - 1).map(|q| &q[1])
        } else {
            None
        }
    }

    fn record(&self, id: u32, v: u64, how: &'static str) {
        let mut w = self.world.lock().unwrap();
        let sent_hi = w.sent_hi;
        if let Some(l) = w.logs.get_mut(&id) {
            l.obs.push(Obs { seen: Seen::Val(v), sent_hi, how });
        }
    }

    /// Records a receive error; returns the number of errors recorded for this receiver.
    fn error(&self, id: u32, (msg, fin): (String, bool), how: &'static str) -> usize {
        let mut w = self.world.lock().unwrap();
        let sent_hi = w.sent_hi;
        match w.logs.get_mut(&id) {
            Some(l) => {
                l.obs.push(Obs { seen: Seen::Err { msg, fin }, sent_hi, how });
                l.n_errors()
            }
            None => 0,
        }
    }

    fn finish(&self, id: u32, end: End) {
        {
            let mut w = self.world.lock().unwrap();
            let sender_dropped = w.sender_dropped;
            if let Some(l) = w.logs.get_mut(&id) {
                if l.end.is_none() {
                    if matches!(end, End::Closed | End::StreamEnd) && !sender_dropped {
                        l.early_closure = true;
                    }
                    l.end = Some(end);
                }
            }
        }
        let _ = self.done.send(id);
    }
}

fn sleep_ms(code: u8) -> u64 {
    [1u64, 10, 100, 1000][code as usize % 4]
}

/// Upper bound of receive errors per receiver (each is followed by a blocking `changed()`).
const MAX_ERRORS: usize = 1000;

type RErr = (String, bool);

enum StepOut {
    Nothing,
    Obs(u64, &'static str),
    Closed,
    /// A receive error (text, is_final) returned by the named call.
    Error(RErr, &'static str),
    /// The library returned something impossible.
    Bogus(String),
}

fn copy_out(r: Result<watch::Ref<'_, Val>, watch::RecvError>) -> Result<u64, RErr> {
    match r {
        Ok(v) => Ok(v.n),
        Err(e) => Err((format!("{e:?}"), e.is_final())),
    }
}

async fn run_step(rx: &mut WRx, step: Step, last: u64) -> StepOut {
    match step {
        Step::Ticks(n) => {
            ticks(n.max(1) as u32).await;
            StepOut::Nothing
        }
        Step::Sleep(c) => {
            tokio::time::sleep(Duration::from_millis(sleep_ms(c))).await;
            StepOut::Nothing
        }
        Step::Borrow => {
            let r = copy_out(rx.borrow());
            // A reader that only borrows must let the other tasks run.
            tokio::task::yield_now().await;
            match r {
                Ok(v) => StepOut::Obs(v, "borrow"),
                Err(e) => StepOut::Error(e, "borrow"),
            }
        }
        Step::BorrowUpdate => {
            let r = copy_out(rx.borrow_and_update());
            tokio::task::yield_now().await;
            match r {
                Ok(v) => StepOut::Obs(v, "borrow_and_update"),
                Err(e) => StepOut::Error(e, "borrow_and_update"),
            }
        }
        Step::HasChanged => {
            let hc = rx.has_changed();
            let out = match hc {
                Ok(true) => match copy_out(rx.borrow_and_update()) {
                    Ok(v) => StepOut::Obs(v, "has_changed+borrow_and_update"),
                    Err(e) => StepOut::Error(e, "has_changed+borrow_and_update"),
                },
                Ok(false) => StepOut::Nothing,
                Err(_) => StepOut::Closed,
            };
            tokio::task::yield_now().await;
            out
        }
        Step::Changed { update } => match rx.changed().await {
            Ok(()) => {
                let r = if update { copy_out(rx.borrow_and_update()) } else { copy_out(rx.borrow()) };
                let how = if update { "changed+borrow_and_update" } else { "changed+borrow" };
                match r {
                    Ok(v) => StepOut::Obs(v, how),
                    Err(e) => StepOut::Error(e, how),
                }
            }
            Err(_) => StepOut::Closed,
        },
        Step::WaitFor(d) => {
            let target = last + d.max(1) as u64;
            let r = rx.wait_for(move |v| v.n >= target).await.map(|r| r.n);
            match r {
                Ok(v) if v >= target => StepOut::Obs(v, "wait_for"),
                Ok(v) => StepOut::Bogus(format!("wait_for(>= {target}) returned {v}")),
                Err(watch::WaitForError::Closed) => StepOut::Closed,
                Err(watch::WaitForError::Recv(e)) => StepOut::Error((format!("{e:?}"), e.is_final()), "wait_for"),
            }
        }
    }
}

enum Ev {
    Cmd(Option<Cmd>),
    Step(StepOut),
}

/// Reader actor of one receiver at one endpoint.
fn reader_task(ctx: Ctx, node: usize, rx: WRx, t: Ticket) -> Pin<Box<dyn Future<Output = ()> + Send>> {
    Box::pin(async move {
        let Ticket { id, script, mut pos, mut cmd_rx, mut last, mut cycle_wait, .. } = t;
        let spec = ctx.readers[script % ctx.readers.len()].clone();
        let n = spec.steps.len();
        let mut rx = rx;
        let mut cmds_open = true;
        // After a receive error the reader waits for the next change (inside the select, so that
        // a receiver holding an error can be cloned, moved and dropped).
        let mut after_err = false;
        {
            let mut w = ctx.world.lock().unwrap();
            if let Some(l) = w.logs.get_mut(&id) {
                l.node = Some(node);
            }
        }
        loop {
            if let Some(sa) = spec.stream_after {
                if pos >= sa as usize {
                    stream_task(ctx, id, rx, spec, pos, cmd_rx, cmds_open).await;
                    return;
                }
            }
            // A script cycle without a blocking read gets a forced `changed()` so that the reader
            // neither spins nor misses the closure.
            let err_wait = after_err;
            let forced = err_wait || (pos > 0 && pos % n == 0 && !cycle_wait);
            let step = if err_wait {
                Step::Changed { update: true }
            } else if forced {
                cycle_wait = true;
                Step::Changed { update: true }
            } else {
                if pos % n == 0 {
                    cycle_wait = false;
                }
                spec.steps[pos % n]
            };
            let ev = {
                let fut = run_step(&mut rx, step, last);
                tokio::pin!(fut);
                if cmds_open {
                    tokio::select! {
                        biased;
                        c = cmd_rx.recv() => Ev::Cmd(c),
                        r = &mut fut => Ev::Step(r),
                    }
                } else {
                    Ev::Step(fut.await)
                }
            };
            match ev {
                Ev::Cmd(None) => {
                    cmds_open = false;
                    if forced && !err_wait {
                        cycle_wait = false;
                    }
                }
                Ev::Cmd(Some(cmd)) => {
                    // The interrupted step is repeated later.
                    if forced && !err_wait {
                        cycle_wait = false;
                    }
                    match cmd {
                        Cmd::Clone { id: new_id, script, cmd_rx: new_cmd_rx } => {
                            let c = rx.clone();
                            {
                                let mut w = ctx.world.lock().unwrap();
                                let (born_gen, shipped) = w.logs.get(&id).map(|l| (l.born_gen, l.shipped)).unwrap_or((0, true));
                                if let Some(l) = w.logs.get_mut(&new_id) {
                                    l.floor = last;
                                    l.node = Some(node);
                                    l.born_gen = born_gen;
                                    l.shipped = shipped;
                                }
                            }
                            let t = Ticket { id: new_id, script, pos: 0, cmd_rx: new_cmd_rx, last, cycle_wait: true, ship_sent_hi: 0 };
                            spawn_actor(reader_task(ctx.clone(), node, c, t));
                        }
                        Cmd::Move { up, hops } => {
                            if ctx.hops == 0 {
                                continue;
                            }
                            let up = if up && node >= ctx.hops {
                                false
                            } else if !up && node == 0 {
                                true
                            } else {
                                up
                            };
                            let room = if up { ctx.hops - node } else { node };
                            let nh = (hops.max(1) as usize).min(room);
                            let local;
                            {
                                let mut w = ctx.world.lock().unwrap();
                                let ship_sent_hi = w.sent_hi;
                                let tx_gen = w.tx_gen;
                                w.rx_transfers += 1;
                                local = w.logs.get(&id).map(|l| !l.shipped && l.born_gen == tx_gen).unwrap_or(false);
                                if let Some(l) = w.logs.get_mut(&id) {
                                    l.node = None;
                                    l.transfers += 1;
                                }
                                w.tickets.insert(id, Ticket { id, script, pos, cmd_rx, last, cycle_wait, ship_sent_hi });
                            }
                            let q = ctx.queue(node, up).expect("queue exists");
                            if q.send(Ship::Rx { id, hops_left: nh as u8 - 1, rx, local }).is_err() {
                                ctx.finish(id, End::Lost);
                            }
                            return;
                        }
                        Cmd::Drop => {
                            drop(rx);
                            ctx.finish(id, End::Dropped);
                            return;
                        }
                    }
                }
                Ev::Step(out) => {
                    after_err = false;
                    if !forced {
                        pos += 1;
                        if matches!(step, Step::Changed { .. } | Step::WaitFor(_)) {
                            cycle_wait = true;
                        }
                    }
                    match out {
                        StepOut::Nothing => {}
                        StepOut::Obs(v, how) => {
                            ctx.record(id, v, how);
                            last = v;
                        }
                        StepOut::Closed => {
                            match copy_out(rx.borrow()) {
                                Ok(v) => ctx.record(id, v, "borrow-after-closure"),
                                Err(e) => {
                                    ctx.error(id, e, "borrow-after-closure");
                                }
                            }
                            ctx.finish(id, End::Closed);
                            return;
                        }
                        StepOut::Error(e, how) => {
                            // Errors are values of the channel: the reader goes on after the next
                            // change (an error is reported again by wait_for without any await).
                            if ctx.error(id, e, how) > MAX_ERRORS {
                                ctx.finish(id, End::Errored);
                                return;
                            }
                            after_err = true;
                        }
                        StepOut::Bogus(m) => {
                            ctx.world.lock().unwrap().fails.push(("C15/wait-for-wrong-value".into(), format!("receiver {id}: {m}")));
                        }
                    }
                }
            }
        }
    })
}

/// A clone that cannot be created (its parent has become a stream): neither can the clones that
/// were already requested from it.
fn skip_clone(ctx: &Ctx, id: u32, cmd_rx: UnboundedReceiver<Cmd>) {
    ctx.finish(id, End::Skipped);
    skip_pending_clones(ctx, cmd_rx);
}

/// The clones still queued at a receiver that ceased to exist are never created.
fn skip_pending_clones(ctx: &Ctx, mut cmd_rx: UnboundedReceiver<Cmd>) {
    cmd_rx.close();
    while let Ok(cmd) = cmd_rx.try_recv() {
        if let Cmd::Clone { id, cmd_rx, .. } = cmd {
            skip_clone(ctx, id, cmd_rx);
        }
    }
}

/// Reader of a receiver wrapped into a `ReceiverStream` (cannot be cloned or moved any more).
async fn stream_task(ctx: Ctx, id: u32, rx: WRx, spec: Reader, mut pos: usize, mut cmd_rx: UnboundedReceiver<Cmd>, mut cmds_open: bool) {
    {
        let mut w = ctx.world.lock().unwrap();
        if let Some(l) = w.logs.get_mut(&id) {
            l.is_stream = true;
        }
    }
    let mut st = watch::ReceiverStream::new(rx);
    let n = spec.steps.len();
    enum SEv {
        Cmd(Option<Cmd>),
        Item(Option<Result<Val, watch::RecvError>>),
    }
    loop {
        let ev = if cmds_open {
            tokio::select! {
                biased;
                c = cmd_rx.recv() => SEv::Cmd(c),
                i = st.next() => SEv::Item(i),
            }
        } else {
            SEv::Item(st.next().await)
        };
        match ev {
            SEv::Cmd(None) => cmds_open = false,
            SEv::Cmd(Some(Cmd::Clone { id: new_id, cmd_rx: new_cmd_rx, .. })) => skip_clone(&ctx, new_id, new_cmd_rx),
            SEv::Cmd(Some(Cmd::Move { .. })) => {}
            SEv::Cmd(Some(Cmd::Drop)) => {
                drop(st);
                ctx.finish(id, End::Dropped);
                return;
            }
            SEv::Item(Some(Ok(v))) => {
                ctx.record(id, v.n, "stream");
                // Pacing from the script.
                match spec.steps[pos % n] {
                    Step::Ticks(k) => ticks(k.max(1) as u32).await,
                    Step::Sleep(c) => tokio::time::sleep(Duration::from_millis(sleep_ms(c))).await,
                    _ => {}
                }
                pos += 1;
            }
            SEv::Item(Some(Err(e))) => {
                if ctx.error(id, (format!("{e:?}"), e.is_final()), "stream") > MAX_ERRORS {
                    ctx.finish(id, End::Errored);
                    return;
                }
            }
            SEv::Item(None) => {
                ctx.finish(id, End::StreamEnd);
                return;
            }
        }
    }
}

/// Sending side of one direction of one connection: ships halves one after the other.
async fn porter_send(ctx: Ctx, mut q: UnboundedReceiver<Ship>, mut btx: base::Sender<HalfOut, Codec>, deadline: u64) {
    while let Some(ship) = q.recv().await {
        let local_ship = matches!(&ship, Ship::Rx { local: true, .. });
        let (halves, id) = match ship {
            Ship::Rx { id, hops_left, rx, local } => {
                // Serialised with the default limit (so the forwarding task accepts every value),
                // deserialised with `SMALL` at the other endpoint.
                (vec![HalfOut::Announce { id, local }, HalfOut::Rx { id, hops_left, rx: rx.set_max_item_size::<BIG>() }], Some(id))
            }
            Ship::Tx(tx) => (vec![HalfOut::Tx(tx)], None),
        };
        let mut err = None;
        let mut unser = false;
        let local = local_ship;
        for half in halves {
            let res = sim::within(deadline, btx.send(half)).await;
            err = match res {
                Ok(Ok(())) => None,
                Ok(Err(e)) if e.is_item_specific() && id.is_some() => {
                    // The snapshot of the receiver cannot be serialised: the receiver is gone
                    // with the item. Whether this was legitimate is decided by the oracle.
                    unser = true;
                    Some(format!("sending a half over the base channel failed: {e}"))
                }
                Ok(Err(e)) => Some(format!("sending a half over the base channel failed: {e}")),
                Err(()) => Some("sending a half over the base channel hangs".to_string()),
            };
            if err.is_some() {
                break;
            }
        }
        if let (true, Some(id), Some(e)) = (unser, id, &err) {
            let (sent_hi, ticket) = {
                let mut w = ctx.world.lock().unwrap();
                let t = w.tickets.remove(&id);
                w.undecodable_halves.push(format!("receiver {id}: {e}"));
                (w.sent_hi, t)
            };
            ctx.finish(id, End::Undecodable { local, sent_hi });
            if let Some(t) = ticket {
                skip_pending_clones(&ctx, t.cmd_rx);
            }
            continue;
        }
        if let Some(e) = err {
            {
                let mut w = ctx.world.lock().unwrap();
                if w.healthy {
                    w.fails.push(("C15/transfer-failed".into(), e.clone()));
                }
            }
            match id {
                Some(id) => ctx.finish(id, End::Lost),
                None => {
                    let _ = ctx.arrivals.send(Err(e));
                }
            }
        }
    }
}

/// Receiving side: lands halves at `node` or relays them further in the same direction.
async fn porter_recv(ctx: Ctx, mut brx: base::Receiver<HalfIn, Codec>, node: usize, up: bool) {
    let mut announced: Option<(u32, bool)> = None;
    loop {
        match brx.recv().await {
            Ok(Some(HalfIn::Announce { id, local })) => announced = Some((id, local)),
            Ok(Some(HalfIn::Rx { id, hops_left, rx })) => {
                announced = None;
                {
                    let mut w = ctx.world.lock().unwrap();
                    if let Some(l) = w.logs.get_mut(&id) {
                        l.shipped = true;
                    }
                }
                let onward = if hops_left > 0 { ctx.queue(node, up) } else { None };
                match onward {
                    Some(q) => {
                        ctx.world.lock().unwrap().relays += 1;
                        if q.send(Ship::Rx { id, hops_left: hops_left - 1, rx, local: false }).is_err() {
                            ctx.finish(id, End::Lost);
                        }
                    }
                    None => {
                        let ticket = {
                            let mut w = ctx.world.lock().unwrap();
                            let t = w.tickets.remove(&id);
                            if let Some(t) = &t {
                                if w.sent_hi > t.ship_sent_hi {
                                    w.inflight_rx = true;
                                }
                            }
                            t
                        };
                        if let Some(t) = ticket {
                            spawn_actor(reader_task(ctx.clone(), node, rx, t));
                        }
                    }
                }
            }
            Ok(Some(HalfIn::Tx(tx))) => {
                announced = None;
                let _ = ctx.arrivals.send(Ok((node, tx)));
            }
            Ok(None) => break,
            Err(e) if !e.is_final() && announced.is_some() => {
                // The item after an announcement could not be decoded: that receiver is gone, the
                // base channel goes on. Whether this was legitimate is decided by the oracle.
                let (id, local) = announced.take().unwrap();
                let (sent_hi, ticket) = {
                    let mut w = ctx.world.lock().unwrap();
                    let t = w.tickets.remove(&id);
                    w.undecodable_halves.push(format!("receiver {id}: {e}"));
                    (w.sent_hi, t)
                };
                ctx.finish(id, End::Undecodable { local, sent_hi });
                if let Some(t) = ticket {
                    skip_pending_clones(&ctx, t.cmd_rx);
                }
            }
            Err(e) => {
                let mut w = ctx.world.lock().unwrap();
                if w.healthy {
                    w.fails.push(("C15/transfer-failed".into(), format!("receiving a half from the base channel failed: {e}")));
                }
                break;
            }
        }
    }
}

enum Src {
    Remoc(WTx),
    Tokio(tokio::sync::watch::Sender<Val>, Vec<watch::Forwarding>),
}

impl Src {
    /// Returns whether the value was stored in the channel.
    fn send(&self, v: Val, api: Api) -> bool {
        match self {
            Src::Remoc(tx) => match api {
                Api::Send => tx.send(v).is_ok(),
                Api::Replace => {
                    let _ = tx.send_replace(v);
                    true
                }
                Api::Modify => {
                    tx.send_modify(|x| *x = v);
                    true
                }
            },
            Src::Tokio(tx, _) => match api {
                Api::Send => tx.send(v).is_ok(),
                Api::Replace => {
                    let _ = tx.send_replace(v);
                    true
                }
                Api::Modify => {
                    tx.send_modify(|x| *x = v);
                    true
                }
            },
        }
    }
}

pub struct ExecOut {
    pub fails: Vec<(String, String)>,
    pub nontrivial: bool,
    pub classes: Vec<String>,
    pub frames: u64,
    pub inconclusive: bool,
}

fn pause_future(t: u8, ms: u16) -> impl Future<Output = ()> {
    async move {
        if t > 0 {
            ticks(t as u32).await;
        }
        if ms > 0 {
            tokio::time::sleep(Duration::from_millis(ms as u64)).await;
        }
        if t == 0 && ms == 0 {
            tokio::task::yield_now().await;
        }
    }
}

async fn execute(case: &Case) -> ExecOut {
    let mut out = ExecOut { fails: vec![], nontrivial: false, classes: vec![], frames: 0, inconclusive: false };
    let hops = case.hops.min(3) as usize;
    let nodes = hops + 1;
    let healthy = case.fault.is_none();
    let cap_ms = gen::delay_cap_ms(&case.cfg_a, &case.cfg_b);
    let deadline = case.sched.deadline_s(3000, cap_ms);

    let world = Arc::new(Mutex::new(World {
        sent_hi: 0,
        tx_gen: 0,
        kinds: vec![Kind::Plain],
        stored: vec![true],
        last_stored: 0,
        sender_dropped: false,
        logs: BTreeMap::new(),
        tickets: BTreeMap::new(),
        inflight_rx: false,
        inflight_tx: false,
        relays: 0,
        undecodable_halves: vec![],
        rx_transfers: 0,
        tx_transfers: 0,
        healthy,
        fails: vec![],
    }));

    // Connections and base channels.
    let mut links: Vec<SimLink> = Vec::new();
    let mut keep: Vec<Box<dyn std::any::Any + Send>> = Vec::new();
    let mut queues: Vec<[UnboundedSender<Ship>; 2]> = Vec::new();
    let mut porter_parts = Vec::new();
    for l in 0..hops {
        let faults = match &case.fault {
            Some(f) if f.link as usize % hops == l => {
                vec![Fault { dir: f.dir % 2, after: 10 + f.after as u32, kind: if f.stream_error { FaultKind::StreamError } else { FaultKind::Eof } }]
            }
            _ => vec![],
        };
        // Odd connections swap the configurations.
        let (ca, cb) = if l % 2 == 0 { (&case.cfg_a, &case.cfg_b) } else { (&case.cfg_b, &case.cfg_a) };
        let (link, a, b) = match sim::within(3000, connect_pair(ca, cb, &case.sched, faults)).await {
            Ok(Ok(x)) => x,
            Ok(Err(e)) => {
                if healthy {
                    out.fails.push(("C15/setup".into(), e));
                }
                return out;
            }
            Err(()) => {
                if healthy {
                    out.fails.push(("C15/setup".into(), "connection setup hangs".into()));
                }
                return out;
            }
        };
        let gen::Side { client: ca_, listener: la_, run: ra_ } = a;
        let gen::Side { client: cb_, listener: mut lb_, run: rb_ } = b;
        let (conn, acc) = tokio::join!(sim::within(3000, ca_.connect()), sim::within(3000, lb_.accept()));
        let ((tx_a, rx_a), (tx_b, rx_b)) = match (conn, acc) {
            (Ok(Ok(c)), Ok(Ok(Some(x)))) => (c, x),
            _ => {
                if healthy {
                    out.fails.push(("C15/setup".into(), "base port setup failed".into()));
                }
                return out;
            }
        };
        let (q_up_tx, q_up_rx) = unbounded_channel::<Ship>();
        let (q_dn_tx, q_dn_rx) = unbounded_channel::<Ship>();
        queues.push([q_up_tx, q_dn_tx]);
        porter_parts.push((l, q_up_rx, q_dn_rx, base::Sender::<HalfOut, Codec>::new(tx_a), base::Receiver::<HalfIn, Codec>::new(rx_a), base::Sender::<HalfOut, Codec>::new(tx_b), base::Receiver::<HalfIn, Codec>::new(rx_b)));
        links.push(link);
        keep.push(Box::new((ca_, la_, ra_, cb_, lb_, rb_)));
    }
    let (done_tx, mut done_rx) = unbounded_channel::<u32>();
    let (arr_tx, mut arr_rx) = unbounded_channel::<Result<(usize, WTx), String>>();
    let ctx = Ctx { world: world.clone(), readers: Arc::new(case.readers.clone()), hops, queues: Arc::new(queues), done: done_tx, arrivals: arr_tx };
    for (l, q_up_rx, q_dn_rx, btx_a, brx_a, btx_b, brx_b) in porter_parts {
        spawn_actor(porter_send(ctx.clone(), q_up_rx, btx_a, deadline));
        spawn_actor(porter_recv(ctx.clone(), brx_b, l + 1, true));
        spawn_actor(porter_send(ctx.clone(), q_dn_rx, btx_b, deadline));
        spawn_actor(porter_recv(ctx.clone(), brx_a, l, false));
    }

    // The channel.
    let mut tx_node = case.origin as usize % nodes;
    let mut next_id: u32 = 0;
    // Driver-side registry: receivers that were not dropped by an op.
    let mut alive: Vec<(u32, UnboundedSender<Cmd>)> = Vec::new();
    let mut all_ids: Vec<u32> = Vec::new();
    let n_scripts = case.readers.len();

    let new_rx = |rx: WRx, script: usize, floor: u64, node: usize, next_id: &mut u32, alive: &mut Vec<(u32, UnboundedSender<Cmd>)>, all_ids: &mut Vec<u32>| {
        let id = *next_id;
        *next_id += 1;
        let (ctx_tx, crx) = unbounded_channel::<Cmd>();
        {
            let mut w = world.lock().unwrap();
            let g = w.tx_gen;
            w.logs.insert(id, RxLog::new(floor, Some(node), g));
        }
        alive.push((id, ctx_tx));
        all_ids.push(id);
        let t = Ticket { id, script, pos: 0, cmd_rx: crx, last: floor, cycle_wait: true, ship_sent_hi: 0 };
        spawn_actor(reader_task(ctx.clone(), node, rx, t));
    };

    let mut src = if case.tokio_src {
        let (ttx, trx) = tokio::sync::watch::channel(make_val(0, Kind::Plain));
        let (fwd, rx) = watch::forward::<Val, Codec>(trx);
        new_rx(rx.set_max_item_size::<SMALL>(), 0, 0, tx_node, &mut next_id, &mut alive, &mut all_ids);
        Some(Src::Tokio(ttx, vec![fwd]))
    } else {
        let (tx, rx) = watch::channel::<Val, Codec>(make_val(0, Kind::Plain));
        new_rx(rx.set_max_item_size::<SMALL>(), 0, 0, tx_node, &mut next_id, &mut alive, &mut all_ids);
        Some(Src::Remoc(tx))
    };

    let mut stats: BTreeMap<&'static str, u32> = BTreeMap::new();
    let mut prev_was_send = false;
    let mut send_failed = 0u32;
    let mut sender_lost = false;

    let mut send_failed_live = 0u32;
    let do_send = |src: &Src, api: Api, kind: Kind, send_failed: &mut u32, send_failed_live: &mut u32, alive: &Vec<(u32, UnboundedSender<Cmd>)>| {
        let mut w = world.lock().unwrap();
        let v = w.sent_hi + 1;
        w.sent_hi = v;
        let ok = src.send(make_val(v, kind), api);
        w.kinds.push(kind);
        w.stored.push(ok);
        if ok {
            w.last_stored = v;
        } else {
            *send_failed += 1;
            if alive.iter().any(|(id, _)| w.logs.get(id).map(|l| l.end.is_none()).unwrap_or(false)) {
                *send_failed_live += 1;
            }
        }
    };

    'ops: for op in &case.ops {
        let Some(s) = src.as_ref() else { break };
        let mut this_is_send = false;
        match op {
            Op::Send { n, api, gap, marks, bigs, unsers } => {
                if let Src::Remoc(tx) = s {
                    let b = tx.borrow().n;
                    let ls = world.lock().unwrap().last_stored;
                    if b != ls {
                        out.fails.push(("C15/sender-borrow".into(), format!("Sender::borrow() gives {b}, the most recently sent value is {ls}")));
                    }
                }
                for i in 0..*n {
                    do_send(s, *api, kind_of(*marks, *bigs, *unsers, i, case.bad), &mut send_failed, &mut send_failed_live, &alive);
                    if *gap > 0 && i + 1 < *n {
                        ticks(*gap as u32).await;
                    }
                }
                *stats.entry("updates").or_insert(0) += *n as u32;
                this_is_send = true;
            }
            Op::Pause { ticks: t, ms } => pause_future(*t, *ms).await,
            Op::CloneRx { sel, script } => {
                if !alive.is_empty() {
                    let (_, parent) = &alive[*sel as usize % alive.len()];
                    let id = next_id;
                    next_id += 1;
                    let (ctx_tx, crx) = unbounded_channel::<Cmd>();
                    world.lock().unwrap().logs.insert(id, RxLog::new(0, None, 0));
                    if parent.send(Cmd::Clone { id, script: *script as usize % n_scripts, cmd_rx: crx }).is_ok() {
                        alive.push((id, ctx_tx));
                        all_ids.push(id);
                        *stats.entry("clones").or_insert(0) += 1;
                    } else {
                        world.lock().unwrap().logs.remove(&id);
                    }
                }
            }
            Op::Subscribe { script } => {
                let floor = world.lock().unwrap().last_stored;
                let rx = match src.as_mut().unwrap() {
                    Src::Remoc(tx) => tx.subscribe().set_max_item_size::<SMALL>(),
                    Src::Tokio(ttx, fwds) => {
                        let (fwd, rx) = watch::forward::<Val, Codec>(ttx.subscribe());
                        fwds.push(fwd);
                        rx.set_max_item_size::<SMALL>()
                    }
                };
                new_rx(rx, *script as usize % n_scripts, floor, tx_node, &mut next_id, &mut alive, &mut all_ids);
                *stats.entry("subscribes").or_insert(0) += 1;
            }
            Op::MoveRx { sel, up, hops: h } => {
                if !alive.is_empty() && hops > 0 {
                    let (_, c) = &alive[*sel as usize % alive.len()];
                    let _ = c.send(Cmd::Move { up: *up, hops: *h });
                }
            }
            Op::MoveTx { up } => {
                // A sender whose current value is marked cannot be moved: `Sender::deserialize`
                // needs the current value, so the item carrying the sender would be undecodable.
                let current_marked = {
                    let w = world.lock().unwrap();
                    matches!(w.kinds[w.last_stored as usize], Kind::Marked | Kind::Unser)
                };
                if current_marked && hops > 0 && matches!(s, Src::Remoc(_)) {
                    *stats.entry("tx_move_skipped").or_insert(0) += 1;
                } else if hops > 0 && matches!(s, Src::Remoc(_)) {
                    let up = if *up && tx_node >= hops {
                        false
                    } else if !*up && tx_node == 0 {
                        true
                    } else {
                        *up
                    };
                    // In flight: the previous op was an update (no scheduler pass since) and a
                    // live receiver is at another endpoint or in transit.
                    {
                        let mut w = world.lock().unwrap();
                        let remote = alive.iter().any(|(id, _)| w.logs.get(id).map(|l| l.end.is_none() && l.node != Some(tx_node)).unwrap_or(false));
                        if prev_was_send && remote {
                            w.inflight_tx = true;
                        }
                        w.tx_transfers += 1;
                        w.tx_gen += 1;
                    }
                    let Some(Src::Remoc(tx)) = src.take() else { unreachable!() };
                    let q = ctx.queue(tx_node, up).expect("queue exists");
                    if q.send(Ship::Tx(tx)).is_err() {
                        sender_lost = true;
                        break 'ops;
                    }
                    match sim::within(deadline, arr_rx.recv()).await {
                        Ok(Some(Ok((node, tx)))) => {
                            tx_node = node;
                            src = Some(Src::Remoc(tx));
                        }
                        Ok(Some(Err(_))) | Ok(None) => {
                            sender_lost = true;
                            break 'ops;
                        }
                        Err(()) => {
                            if healthy {
                                out.fails.push(("C15/transfer-hangs".into(), format!("the sender half did not arrive at the neighbouring endpoint within {deadline} virtual s")));
                            }
                            sender_lost = true;
                            break 'ops;
                        }
                    }
                }
            }
            Op::DropRx { sel } => {
                if !alive.is_empty() {
                    let (_, c) = alive.remove(*sel as usize % alive.len());
                    let _ = c.send(Cmd::Drop);
                    *stats.entry("drops").or_insert(0) += 1;
                }
            }
        }
        prev_was_send = this_is_send;
    }

    // Last updates, then the sender is dropped at once.
    if let Some(s) = src.take() {
        for i in 0..case.final_burst {
            do_send(&s, case.final_api, kind_of(case.final_marks, case.final_bigs, case.final_unsers, i, case.bad), &mut send_failed, &mut send_failed_live, &alive);
        }
        world.lock().unwrap().sender_dropped = true;
        drop(s);
    } else {
        world.lock().unwrap().sender_dropped = true;
    }

    // Wait until every receiver that was not dropped has seen the closure.
    let wait_s = if healthy && !sender_lost { deadline } else { 600 };
    let t_end = tokio::time::Instant::now() + Duration::from_secs(wait_s);
    let mut timed_out = false;
    loop {
        let pending: Vec<u32> = {
            let w = world.lock().unwrap();
            alive.iter().map(|(id, _)| *id).filter(|id| w.logs.get(id).map(|l| l.end.is_none()).unwrap_or(false)).collect()
        };
        if pending.is_empty() {
            break;
        }
        match tokio::time::timeout_at(t_end, done_rx.recv()).await {
            Ok(Some(_)) => {}
            Ok(None) => break,
            Err(_) => {
                timed_out = true;
                break;
            }
        }
    }
    out.frames = links.iter().map(|l| l.tap_len() as u64 / 2).sum();

    // ---------------------------------------------------------------------------------------
    // Oracle over the recorded history.
    // ---------------------------------------------------------------------------------------
    let w = world.lock().unwrap();
    if std::env::var("VERIF_DEBUG").is_ok() {
        eprintln!("--- sent_hi {} last_stored {} tx_gen {} stored {:?} kinds {:?} timed_out {timed_out} tx_node {tx_node} undecodable halves {:?}", w.sent_hi, w.last_stored, w.tx_gen, w.stored, w.kinds, w.undecodable_halves);
        for (id, l) in &w.logs {
            eprintln!("rx {id}: floor {} node {:?} transfers {} shipped {} born_gen {} stream {} end {:?}", l.floor, l.node, l.transfers, l.shipped, l.born_gen, l.is_stream, l.end);
            eprintln!("      obs {:?}", l.obs.iter().map(|o| format!("{}@{}:{}", o.show(), o.sent_hi, o.how)).collect::<Vec<_>>());
            for o in &l.obs {
                if let Seen::Err { msg, .. } = &o.seen {
                    eprintln!("      error: {msg}");
                }
            }
        }
    }
    out.fails.extend(w.fails.iter().cloned());
    let last = w.last_stored;
    let live = healthy && !sender_lost;
    let is_stored = |v: u64| w.stored.get(v as usize).copied().unwrap_or(false);
    let kind = |v: u64| w.kinds.get(v as usize).copied().unwrap_or(Kind::Plain);
    let mut coalesced = false;
    let mut n_stream = 0;
    let mut n_moved = 0;
    let mut max_transfers = 0;
    let mut early_closure = false;
    let mut err_reported = false;
    let mut recovered = false;
    let mut err_kinds: std::collections::BTreeSet<&'static str> = Default::default();
    let mut ended_on_error = false;
    let mut rx_lost_undecodable = 0;
    for id in &all_ids {
        let Some(l) = w.logs.get(id) else { continue };
        // A receiver that was never transferred and hangs on the channel of the sender's final
        // generation never had a connection between itself and the sender: nothing is undecodable
        // for it. Otherwise a marked value may be undecodable for it, and an oversized one if it
        // ever arrived over a connection.
        let always_local = !l.shipped && l.born_gen == w.tx_gen;
        let maybe_bad = |v: u64| match kind(v) {
            Kind::Plain => false,
            Kind::Marked | Kind::Unser => !always_local,
            Kind::Big => l.shipped,
        };
        let mut prev = l.floor;
        let mut pending_err = false;
        let seq: Vec<String> = l.obs.iter().map(|o| o.show()).collect();
        for (k, o) in l.obs.iter().enumerate() {
            let v = match &o.seen {
                Seen::Val(v) => *v,
                Seen::Err { msg, fin } => {
                    err_kinds.insert(if msg.contains("MaxItemSizeExceeded") {
                        "error:max-item-size"
                    } else if msg.contains("Deserialize") {
                        "error:deserialize"
                    } else if live {
                        "error:other(healthy)"
                    } else {
                        "error:other(fault)"
                    });
                    if live {
                        if *fin {
                            out.fails.push(("C15/recv-error".into(), format!("receiver {id} got a FINAL receive error via {} on healthy connections: {msg}; observed sequence {seq:?}", o.how)));
                            break;
                        }
                        // The state of a receiver follows the sending order: an error stands for
                        // an undecodable value newer than everything observed before.
                        if !((prev + 1)..=o.sent_hi).any(|b| is_stored(b) && maybe_bad(b)) {
                            out.fails.push((
                                "C15/recv-error".into(),
                                format!(
                                    "receiver {id} ({}) got a receive error via {} (observation {k}) although no value that could be undecodable for it was sent after the value {prev} it had observed (values issued so far 1..={}): {msg}; observed sequence {seq:?}",
                                    if always_local { "no connection between it and the sender" } else { "remote" },
                                    o.how,
                                    o.sent_hi
                                ),
                            ));
                            break;
                        }
                        err_reported = true;
                        pending_err = true;
                    }
                    continue;
                }
            };
            if !is_stored(v) || v > o.sent_hi {
                out.fails.push((
                    "C15/unsent-value".into(),
                    format!("receiver {id} observed {} via {} (observation {k}); values issued so far 1..={}, that value was {}; observed sequence {seq:?}", v, o.how, o.sent_hi, if is_stored(v) { "not yet sent" } else { "never stored by a successful send" }),
                ));
                break;
            }
            if v < prev {
                out.fails.push((
                    "C15/went-backwards".into(),
                    format!("receiver {id} observed {} via {} after {} (observation {k}; lower bound at creation {}); observed sequence {seq:?}; transfers {}", v, o.how, prev, l.floor, l.transfers),
                ));
                break;
            }
            // Coalesced: a value stored in the channel lies strictly between two consecutive
            // observations, i.e. this receiver skipped it.
            if v > prev + 1 && ((prev + 1)..v).any(|x| is_stored(x)) {
                coalesced = true;
            }
            if pending_err && v > prev {
                recovered = true;
            }
            pending_err = false;
            prev = v;
        }
        if l.is_stream {
            n_stream += 1;
        }
        if l.transfers > 0 {
            n_moved += 1;
        }
        max_transfers = max_transfers.max(l.transfers);
        early_closure |= l.early_closure;
        let required = alive.iter().any(|(a, _)| a == id);
        if let Some(End::Undecodable { local, sent_hi }) = &l.end {
            rx_lost_undecodable += 1;
            // Legitimate only for a receiver shipped from the sender's own channel while a marked
            // value could be its current value (the snapshot travels inside the item).
            let excuse = *local && (prev..=*sent_hi).any(|b| is_stored(b) && matches!(kind(b), Kind::Marked | Kind::Unser));
            if live && !excuse {
                out.fails.push(("C15/transfer-failed".into(), format!("the item carrying receiver {id} was undecodable at the next endpoint although its snapshot cannot have been a marked value (shipped from the sender's channel: {local}; last observed {prev}; issued 1..={sent_hi}); {:?}", w.undecodable_halves)));
            }
        }
        if live && required {
            // The highest value that certainly reached this receiver in decodable form: nothing
            // newer than its final observation may be of that sort.
            let final_ev = l.obs.last();
            let verdict: Result<(), String> = match final_ev.map(|o| &o.seen) {
                None => Err("observed nothing at all".into()),
                Some(Seen::Val(x)) => match ((*x + 1)..=last).rev().find(|y| is_stored(*y) && !maybe_bad(*y)) {
                    Some(y) if y == last => Err(format!("observed {x} last, but the last value sent is {last}")),
                    Some(y) => Err(format!("observed {x} last, but the later value {y} was sent and is decodable for it (the values after {y} are undecodable for it)")),
                    None => Ok(()),
                },
                Some(Seen::Err { msg, .. }) => {
                    ended_on_error = true;
                    // Fine if it stands for an undecodable value after which nothing decodable was sent.
                    let last_good = (1..=last).rev().find(|y| is_stored(*y) && !maybe_bad(*y)).unwrap_or(0);
                    if ((last_good.max(prev) + 1)..=last).any(|b| is_stored(b) && maybe_bad(b)) {
                        Ok(())
                    } else if last_good == last {
                        Err(format!("ended on the receive error {msg}, but the last value sent {last} is decodable for it"))
                    } else {
                        Err(format!("ended on the receive error {msg}, but the value {last_good} sent after every value that could be undecodable for it never showed up"))
                    }
                }
            };
            let who = format!(
                "receiver {id} ({}; {}; transfers {}; endpoint {:?})",
                if l.is_stream { "stream" } else { "receiver" },
                if always_local { "no connection between it and the sender" } else { "remote" },
                l.transfers,
                l.node
            );
            match &l.end {
                Some(End::Closed) | Some(End::StreamEnd) => {
                    if let Err(why) = verdict {
                        out.fails.push(("C15/lost-update".into(), format!("{who} saw the closure having {why}; observed sequence {seq:?} via {:?}", final_ev.map(|o| o.how))));
                    }
                }
                Some(End::Skipped) | Some(End::Dropped) | Some(End::Undecodable { .. }) => {}
                Some(End::Lost) | Some(End::Errored) => {
                    out.fails.push(("C15/recv-error".into(), format!("receiver {id} ended with {:?} on healthy connections; observed sequence {seq:?}", l.end)));
                }
                None => {
                    let in_transit = l.node.is_none();
                    if verdict.is_err() || in_transit {
                        out.fails.push((
                            "C15/lost-update".into(),
                            format!(
                                "{who}{} did not get to the last value within {wait_s} virtual s after the sender was dropped: {}; observed sequence {seq:?}",
                                if in_transit { " still in transit" } else { "" },
                                verdict.err().unwrap_or_else(|| "in transit".into())
                            ),
                        ));
                    } else {
                        out.fails.push((
                            "C15/no-closure".into(),
                            format!("{who} observed the last value {last} but not the closure within {wait_s} virtual s after the sender was dropped (timed out: {timed_out}); observed sequence {seq:?}"),
                        ));
                    }
                }
            }
        }
    }
    let inflight = w.inflight_rx || w.inflight_tx;
    out.nontrivial = coalesced && inflight;
    out.inconclusive = false;

    // Classes.
    let mut c = |s: String| out.classes.push(s);
    c(format!("connections:{hops}"));
    c(if case.tokio_src { "source:tokio-forward".into() } else { "source:remoc".into() });
    if !healthy {
        c("fault:safety-only".into());
    }
    if sender_lost {
        c("sender-lost-in-fault".into());
    }
    if coalesced {
        c("coalesced".into());
    }
    if w.inflight_rx {
        c("inflight:receiver-transfer".into());
    }
    if w.inflight_tx {
        c("inflight:sender-transfer".into());
    }
    if w.rx_transfers > 0 {
        c("receiver-moved".into());
    }
    if w.relays > 0 {
        c("receiver-relayed-multi-hop".into());
    }
    if max_transfers >= 2 {
        c("receiver-moved-repeatedly".into());
    }
    if w.tx_transfers > 0 {
        c(format!("sender-moved:{}", w.tx_transfers.min(3)));
    }
    if n_stream > 0 {
        c("stream-reader".into());
    }
    if stats.get("clones").copied().unwrap_or(0) > 0 {
        c("clone".into());
    }
    if stats.get("subscribes").copied().unwrap_or(0) > 0 {
        c("subscribe".into());
    }
    if stats.get("drops").copied().unwrap_or(0) > 0 {
        c("receiver-dropped".into());
    }
    if send_failed > 0 {
        c("send-returned-error".into());
    }
    let n_unser = (1..=w.sent_hi).filter(|v| is_stored(*v) && kind(*v) == Kind::Unser).count();
    if n_unser > 0 {
        c("unserialisable-values".into());
    }
    let n_marked = (1..=w.sent_hi).filter(|v| is_stored(*v) && kind(*v) == Kind::Marked).count();
    let n_big = (1..=w.sent_hi).filter(|v| is_stored(*v) && kind(*v) == Kind::Big).count();
    c(format!("undecodable-values:{}", match (n_marked > 0, n_big > 0) { (false, false) => "none", (true, false) => "marked", (false, true) => "oversized", (true, true) => "marked+oversized" }));
    if n_marked + n_big > 0 {
        c(format!("last-value:{}", match kind(last) { Kind::Plain => "plain", Kind::Marked => "marked", Kind::Big => "oversized", Kind::Unser => "unserialisable" }));
    }
    if err_reported {
        c("receiver-reported-non-final-error".into());
    }
    if recovered {
        c("newer-value-observed-after-error".into());
    }
    if ended_on_error {
        c("receiver-ended-on-error".into());
    }
    for k in &err_kinds {
        c(k.to_string());
    }
    if rx_lost_undecodable > 0 {
        c("receiver-lost:undecodable-snapshot".into());
    }
    if stats.get("tx_move_skipped").copied().unwrap_or(0) > 0 {
        c("sender-move-skipped:marked-current-value".into());
    }
    if case.final_burst > 0 {
        c("update-right-before-drop".into());
    }
    if early_closure {
        c(format!("closure-before-sender-drop:{}", if healthy && !sender_lost { "healthy" } else { "fault" }));
    }
    if send_failed_live > 0 {
        c(format!("send-error-with-live-receiver:{}", if healthy && !sender_lost { "healthy" } else { "fault" }));
    }
    let _ = n_moved;
    c(format!("receivers:{}", match all_ids.len() { 0..=1 => "1", 2..=3 => "2-3", _ => "4+" }));
    c(format!("updates:{}", match w.sent_hi { 0 => "0", 1..=5 => "1-5", 6..=20 => "6-20", _ => "21+" }));
    drop(w);
    drop(keep);
    out
}

pub fn run(case: &Case) -> Outcome {
    let tape = case.sched.tape();
    let res = sim::run_sim(case.sched.tokio_seed, &tape, case.sched.defer, execute(case));
    let mut out = Outcome::default();
    out.frames = res.frames;
    out.inconclusive = res.inconclusive;
    if let Some((s, m)) = res.fails.first() {
        // A case that contains a value whose Serialize fails on the sender's endpoint gets its own
        // signature, so that the known finding about such values never hides another lost update.
        let has_unser = case.final_unsers != 0 || case.ops.iter().any(|o| matches!(o, Op::Send { unsers, .. } if *unsers != 0));
        let sig = if has_unser && s == "C15/lost-update" { "C15/lost-update/after-unserialisable-value".to_string() } else { s.clone() };
        out.fail(sig, m.clone());
    }
    for c in res.classes {
        out.class(c);
    }
    out.nontrivial = res.nontrivial;
    out
}

pub const RULE: &str = "case = (0..3 chmux connections in a line over simulated transports with generated Cfg/schedule, watch channel of counter values created at a generated endpoint either by watch::channel or by watch::forward of a tokio watch, op history: bursts of send/send_replace/send_modify with or without scheduler passes in between, pauses, clone a receiver, subscribe at the sender, send a receiver 1..3 connections away (re-sent at every intermediate endpoint), send the sender to the neighbouring endpoint, drop a receiver; per receiver a generated read script of borrow/borrow_and_update/has_changed/changed/wait_for/ReceiverStream with pauses; 0..3 updates synchronously before the sender is dropped; optional transport fault; in 60 % of the cases generated updates are undecodable for receivers behind a connection: 'marked' values are rejected by the value type's custom Deserialize, 'oversized' values exceed the max_item_size (384 bytes) that every receiver has after it arrived over a connection - both give a NON-FINAL receive error for that value only). Oracle over the recorded history: every observed value was stored by a successful send (or is the initial value) and had been issued when observed; per logical receiver (followed across transfers; a clone starts at its parent's last observation, a subscriber at the latest value) the observed sequence is non-decreasing; Sender::borrow equals the latest value; without fault every receiver not dropped observes the closure within the virtual deadline and its last observation is the last value sent; a receiver that never had a connection between itself and the sender gets no receive error at all and must end on the last value sent whatever its kind; a receiver behind a connection may get non-final receive errors, but only while an undecodable value newer than its last observed value has been sent, it must not get a final error, and when it sees the closure its last observation must be either a value after which no value decodable for it was sent (so the last value sent if that is decodable) or an error standing for an undecodable value after which nothing decodable was sent; a receiver may get lost in a transfer only if it was shipped from the sender's own channel while a marked value could be its current value (the snapshot travels inside the carrying item). With a fault only the safety part is checked. non-trivial = (some receiver skipped at least one sent value between two consecutive observations) AND (a receiver landed after a transfer during which the sender issued an update, OR the sender was shipped directly after an update without any scheduler pass while a live receiver was at another endpoint or in transit); distinct = distinct case hash";

pub fn main(tier: Tier, seed: u64) -> Report {
    let mut rep = Report::new("C15", tier, seed);
    rep.rule = RULE.into();
    rep.assumptions = vec![
        "single-threaded deterministic simulation; task-level interleavings only (poll deferral hook + transport delays)".into(),
        "a receiver sent to another endpoint is treated as the same logical receiver: observations after the transfer must not be older than those before it".into(),
        "a value whose send() returned an error counts as not sent; send_replace/send_modify always count as sent".into(),
        "with a transport fault only 'observed values were sent, in order' is checked".into(),
        "undecodable values: a remote receiver may report the non-final error or skip the value; which endpoints can decode a value is over-approximated per receiver (marked: undecodable unless the receiver never had a connection to the sender; oversized: undecodable only for receivers that arrived over a connection)".into(),
        "a sender whose current value is marked is not moved, and a receiver shipped from the sender's own channel with a marked current value is lost with the undecodable carrying item (both follow from the snapshot being part of the transported half)".into(),
    ];
    let regress: Vec<Case> = runner::load_regress::<Case>("C15", "watch").into_iter().map(|(_, c)| c).collect();
    if !regress.is_empty() {
        runner::run_cases(&mut rep, "regress-watch", regress, run);
    }
    runner::run_generated(&mut rep, "watch", tier.pick(40_000, 300_000), || strategy(tier), run);
    rep
}

pub fn replay(_part: &str, case: serde_json::Value) -> (Option<runner::Failure>, u32, u32) {
    let n = runner::replay_times(3);
    let c: Case = serde_json::from_value(case).expect("replay case does not parse as C15 case");
    let (f, h) = runner::replay_case(&c, run, n);
    (f, h, n)
}
