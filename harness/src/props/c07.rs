//! C07 — Orderly shutdown and reclamation of ports and tasks.

use bytes::Bytes;
use proptest::prelude::*;
use serde::{Deserialize, Serialize};

use crate::engine::{
    gen::{self, connect_pair, payload, sched, GCfg, Sched},
    runner::{self, Outcome, Report, Tier},
    sim::{self, spawn_actor},
    wire,
};
use remoc::chmux::{self, PortReq, Received};

#[derive(Clone, Debug, Serialize, Deserialize, PartialEq, Eq, Hash)]
pub enum Step {
    /// Connect from `from`, accept on the other side.
    Open { from: u8 },
    /// Open `n` ports by sending port requests over an existing pair.
    OpenBatch { pair: u8, from: u8, n: u8 },
    /// Send one message over a pair and receive it.
    Transfer { pair: u8, from: u8, len: u8 },
    /// Issue a connect that stays unanswered; the other side holds the request or leaves it queued.
    PendingConnect { from: u8, hold: bool },
    /// Drop one of the four handles of a pair (0: A.tx, 1: A.rx, 2: B.tx, 3: B.rx).
    DropHandle { pair: u8, which: u8 },
    CloseRx { pair: u8, side: u8 },
    /// Start a chunked message, then drop the sender.
    PartialSendDropTx { pair: u8, side: u8 },
    /// A send blocked on credits while the remote receiver is dropped.
    BlockedSendDropRemoteRx { pair: u8, side: u8 },
    /// 0: drop the Connect future, 1: drop the held/queued request, 2: accept it.
    ResolvePending { idx: u8, how: u8 },
    /// Quiescent point: free port numbers must be exactly max_ports - in_use.
    Checkpoint,
    Pause,
}

#[derive(Clone, Debug, Serialize, Deserialize, PartialEq, Eq, Hash)]
pub struct Case {
    pub cfg_a: GCfg,
    pub cfg_b: GCfg,
    pub sched: Sched,
    pub cycles: Vec<Vec<Step>>,
    /// Order seeds for dropping whatever is left at the end of a cycle / of the run.
    pub order: Vec<u8>,
    /// Final drop order of clients/listeners (permutation index 0..24).
    pub final_perm: u8,
    /// The last cycle is not cleaned up: pending connects, queued (un-inspected) and held
    /// requests and open handles are still there when clients and listeners are dropped.
    #[serde(default)]
    pub leave_pending: bool,
}

fn gcfg_c07() -> BoxedStrategy<GCfg> {
    (1u32..=8, 1u16..=3, prop_oneof![Just(16u32), Just(4u32)], prop_oneof![Just(32u32), Just(8u32), Just(6u32)], 1usize..=3)
        .prop_map(|(max_ports, connect_queue, chunk_size, receive_buffer, q)| GCfg {
            chunk_size,
            receive_buffer,
            max_data_size: 4096,
            shared_q: q,
            tsend_q: q,
            trecv_q: q,
            connect_queue,
            max_ports,
            max_received_ports: 16,
            timeout_s: Some(60),
        })
        .boxed()
}

fn step_strategy() -> BoxedStrategy<Step> {
    prop_oneof![
        6 => (0u8..2).prop_map(|from| Step::Open { from }),
        2 => (any::<u8>(), 0u8..2, 1u8..=3).prop_map(|(pair, from, n)| Step::OpenBatch { pair, from, n }),
        3 => (any::<u8>(), 0u8..2, 0u8..=40).prop_map(|(pair, from, len)| Step::Transfer { pair, from, len }),
        2 => (0u8..2, any::<bool>()).prop_map(|(from, hold)| Step::PendingConnect { from, hold }),
        6 => (any::<u8>(), 0u8..4).prop_map(|(pair, which)| Step::DropHandle { pair, which }),
        2 => (any::<u8>(), 0u8..2).prop_map(|(pair, side)| Step::CloseRx { pair, side }),
        2 => (any::<u8>(), 0u8..2).prop_map(|(pair, side)| Step::PartialSendDropTx { pair, side }),
        2 => (any::<u8>(), 0u8..2).prop_map(|(pair, side)| Step::BlockedSendDropRemoteRx { pair, side }),
        3 => (any::<u8>(), 0u8..3).prop_map(|(idx, how)| Step::ResolvePending { idx, how }),
        2 => Just(Step::Checkpoint),
        1 => Just(Step::Pause),
    ]
    .boxed()
}

pub fn strategy(tier: Tier) -> BoxedStrategy<Case> {
    let max_cycles = tier.pick(4, 20);
    let max_steps = tier.pick(14, 24);
    (
        gcfg_c07(),
        gcfg_c07(),
        sched(true),
        proptest::collection::vec(proptest::collection::vec(step_strategy(), 1..max_steps), 1..=max_cycles),
        proptest::collection::vec(any::<u8>(), 4..12),
        0u8..24,
        prop_oneof![2 => Just(false), 1 => Just(true)],
    )
        .prop_map(|(cfg_a, cfg_b, sched, cycles, order, final_perm, leave_pending)| Case { cfg_a, cfg_b, sched, cycles, order, final_perm, leave_pending })
        .boxed()
}

struct PairH {
    /// [A.tx, A.rx, B.tx, B.rx]
    tx: [Option<chmux::Sender>; 2],
    rx: [Option<chmux::Receiver>; 2],
}

impl PairH {
    fn live(&self) -> bool {
        self.tx.iter().any(|t| t.is_some()) || self.rx.iter().any(|r| r.is_some())
    }
}

struct Pending {
    from: u8,
    connect: Option<chmux::Connect>,
    /// Request taken out of the listener queue on the other side (None = still queued).
    held: Option<chmux::Request>,
    id: u32,
    resolved: bool,
}

pub struct RunOut {
    pub fails: Vec<(String, String)>,
    pub classes: Vec<String>,
    pub frames: u64,
    pub checkpoints: u32,
    pub inflight_drop: bool,
}

pub async fn execute(case: &Case) -> RunOut {
    let mut out = RunOut { fails: vec![], classes: vec![], frames: 0, checkpoints: 0, inflight_drop: false };
    let base_tasks = tokio::runtime::Handle::current().metrics().num_alive_tasks();
    let cap = gen::delay_cap_ms(&case.cfg_a, &case.cfg_b);
    let settle_s = 100 + 60 * case.sched.max_delay_ms(cap) / 1000;
    let (link, a, b) = match connect_pair(&case.cfg_a, &case.cfg_b, &case.sched, vec![]).await {
        Ok(x) => x,
        Err(e) => {
            out.fails.push(("C07/setup".into(), e));
            return out;
        }
    };
    let gen::Side { client: ca, listener: la, run: run_a } = a;
    let gen::Side { client: cb, listener: lb, run: run_b } = b;
    let mut clients = [Some(ca), Some(cb)];
    let mut listeners = [Some(la), Some(lb)];
    let allocs = [clients[0].as_ref().unwrap().port_allocator(), clients[1].as_ref().unwrap().port_allocator()];
    let max_ports = [case.cfg_a.max_ports as usize, case.cfg_b.max_ports as usize];
    let mut pairs: Vec<PairH> = Vec::new();
    let mut pendings: Vec<Pending> = Vec::new();
    let mut next_id = 1u32;
    let mut left_pending = 0usize;
    let mut order_pos = 0usize;
    let mut next_order = |n: usize| -> usize {
        let b = case.order[order_pos % case.order.len()] as usize;
        order_pos += 1;
        b % n.max(1)
    };

    // Ports in use on an endpoint according to the model.
    fn in_use(side: usize, pairs: &[PairH], pendings: &[Pending]) -> usize {
        pairs.iter().filter(|p| p.live()).count()
            + pendings.iter().filter(|p| !p.resolved && p.from as usize == side).count()
    }

    macro_rules! checkpoint {
        ($what:expr) => {{
            tokio::time::sleep(std::time::Duration::from_secs(settle_s)).await;
            out.checkpoints += 1;
            for side in 0..2 {
                let want = max_ports[side].saturating_sub(in_use(side, &pairs, &pendings));
                let mut got = Vec::new();
                while let Some(p) = allocs[side].try_allocate() {
                    got.push(p);
                    if got.len() > max_ports[side] + 2 {
                        break;
                    }
                }
                let n = got.len();
                drop(got);
                if n < want {
                    out.fails.push((
                        "C07/port-leaked".into(),
                        format!(
                            "{}: endpoint {side} can allocate {n} port numbers, expected {want} (max_ports {}, model in use {}): ports leaked",
                            $what,
                            max_ports[side],
                            in_use(side, &pairs, &pendings)
                        ),
                    ));
                } else if n > want {
                    out.fails.push((
                        "C07/port-released-early".into(),
                        format!(
                            "{}: endpoint {side} can allocate {n} port numbers, expected {want} (max_ports {}, model in use {}): a port number was released while one of its four handles is still alive",
                            $what,
                            max_ports[side],
                            in_use(side, &pairs, &pendings)
                        ),
                    ));
                }
            }
        }};
    }

    'cycles: for (ci, cycle) in case.cycles.iter().enumerate() {
        // A port batch that failed half-way (remote receiver closed while it was being sent) leaves
        // its already transmitted requests parked in the remote receiver until that is dropped:
        // the model cannot know how many, so in-cycle checkpoints are skipped from then on.
        let mut uncertain = false;
        for step in cycle {
            if !out.fails.is_empty() {
                break 'cycles;
            }
            // With ports in limbo (see `uncertain`) the free-port count is unknown: no new opens.
            if uncertain && matches!(step, Step::Open { .. } | Step::OpenBatch { .. } | Step::PendingConnect { .. } | Step::ResolvePending { how: 2, .. }) {
                continue;
            }
            match step {
                Step::Open { from } => {
                    let f = *from as usize;
                    let t = 1 - f;
                    if clients[f].is_none() || listeners[t].is_none() {
                        continue;
                    }
                    if in_use(f, &pairs, &pendings) >= max_ports[f] || in_use(t, &pairs, &pendings) >= max_ports[t] {
                        continue;
                    }
                    // Skip while un-inspected requests are queued on the target (accept would take those).
                    if pendings.iter().any(|p| !p.resolved && p.from as usize == f && p.held.is_none()) {
                        continue;
                    }
                    // Unanswered requests hold the request credits the peer advertised.
                    let unanswered = pendings.iter().filter(|p| !p.resolved && p.from as usize == f).count();
                    let queue = if t == 0 { case.cfg_a.connect_queue } else { case.cfg_b.connect_queue } as usize;
                    if unanswered >= queue {
                        continue;
                    }
                    let c = clients[f].as_ref().unwrap().clone();
                    let l = listeners[t].as_mut().unwrap();
                    let r = sim::within(3000, async { tokio::join!(c.connect(), l.accept()) }).await;
                    match r {
                        Ok((Ok((ctx, crx)), Ok(Some((ltx, lrx))))) => {
                            let mut p = PairH { tx: [None, None], rx: [None, None] };
                            p.tx[f] = Some(ctx);
                            p.rx[f] = Some(crx);
                            p.tx[t] = Some(ltx);
                            p.rx[t] = Some(lrx);
                            pairs.push(p);
                        }
                        Ok((c, l)) => out.fails.push((
                            "C07/open-failed".into(),
                            format!("open failed although ports are free by the model: {:?} / {:?}", c.map(|_| ()), l.map(|o| o.map(|_| ()))),
                        )),
                        Err(()) => out.fails.push(("C07/open-hangs".into(), "connect/accept did not complete although ports are free by the model (leak?)".into())),
                    }
                }
                Step::OpenBatch { pair, from, n } => {
                    let f = *from as usize;
                    let t = 1 - f;
                    let cand: Vec<usize> = (0..pairs.len()).filter(|&i| pairs[i].tx[f].is_some() && pairs[i].rx[t].is_some()).collect();
                    if cand.is_empty() {
                        continue;
                    }
                    let pi = cand[*pair as usize % cand.len()];
                    let room = (max_ports[f] - in_use(f, &pairs, &pendings)).min(max_ports[t] - in_use(t, &pairs, &pendings));
                    let n = (*n as usize).min(room);
                    if n == 0 {
                        continue;
                    }
                    let mut reqs = Vec::new();
                    for _ in 0..n {
                        match allocs[f].try_allocate() {
                            Some(p) => reqs.push(PortReq::new(p)),
                            None => break,
                        }
                    }
                    let n = reqs.len();
                    if n == 0 {
                        continue;
                    }
                    let (txs, rxs) = {
                        let p = &mut pairs[pi];
                        (p.tx[f].as_mut().unwrap() as *mut chmux::Sender, p.rx[t].as_mut().unwrap() as *mut chmux::Receiver)
                    };
                    // SAFETY: distinct fields of the same element, used only within this block.
                    let (txs, rxs) = unsafe { (&mut *txs, &mut *rxs) };
                    let r = sim::within(3000, async {
                        // The batch may need more credit than one receive buffer: receive concurrently.
                        use futures::future::{select, Either};
                        let cf = Box::pin(txs.connect(reqs, true));
                        let rf = Box::pin(async {
                            loop {
                                match rxs.recv_any().await {
                                    Ok(Some(Received::Requests(r))) => break Ok(r),
                                    Ok(Some(_)) => {}
                                    Ok(None) => break Err("eos".to_string()),
                                    Err(e) => break Err(e.to_string()),
                                }
                            }
                        });
                        let (connects, reqs) = match select(cf, rf).await {
                            // Remote receiver was closed earlier in the script: nothing is opened.
                            Either::Left((Err(e), _)) if e.is_closed() => return Ok(Vec::new()),
                            Either::Left((Err(e), _)) => return Err(e.to_string()),
                            Either::Left((Ok(c), rf)) => (c, rf.await),
                            Either::Right((r, cf)) => match cf.await {
                                Ok(c) => (c, r),
                                Err(e) => return Err(e.to_string()),
                            },
                        };
                        let reqs = reqs?;
                        let mut res = Vec::new();
                        for (req, c) in reqs.into_iter().zip(connects) {
                            let (l, c) = tokio::join!(req.accept(), c);
                            res.push((c.map_err(|e| e.to_string())?, l.map_err(|e| e.to_string())?));
                        }
                        Ok::<_, String>(res)
                    })
                    .await;
                    match r {
                        Ok(Ok(v)) if v.is_empty() => uncertain = true,
                        Ok(Ok(v)) if v.len() == n => {
                            for ((ctx, crx), (ltx, lrx)) in v {
                                let mut p = PairH { tx: [None, None], rx: [None, None] };
                                p.tx[f] = Some(ctx);
                                p.rx[f] = Some(crx);
                                p.tx[t] = Some(ltx);
                                p.rx[t] = Some(lrx);
                                pairs.push(p);
                            }
                            out.classes.push("batch-open".into());
                        }
                        other => out.fails.push(("C07/open-failed".into(), format!("batch open of {n} ports failed: {:?}", other.map(|r| r.map(|v| v.len()))))),
                    }
                }
                Step::Transfer { pair, from, len } => {
                    let f = *from as usize;
                    let t = 1 - f;
                    let cand: Vec<usize> = (0..pairs.len()).filter(|&i| pairs[i].tx[f].is_some() && pairs[i].rx[t].is_some()).collect();
                    if cand.is_empty() {
                        continue;
                    }
                    let pi = cand[*pair as usize % cand.len()];
                    let data = payload(*len as u32, *len as usize);
                    let p = &mut pairs[pi];
                    let (mut tx, mut rx) = (p.tx[f].take().unwrap(), p.rx[t].take().unwrap());
                    let d2 = data.clone();
                    let r = sim::within(3000, async {
                        use futures::future::{select, Either};
                        let sf = Box::pin(tx.send(d2));
                        let rf = Box::pin(rx.recv());
                        match select(sf, rf).await {
                            // A failed send (remote receiver closed earlier) delivers nothing.
                            Either::Left((Err(e), _)) => (Err(e), Ok(None)),
                            Either::Left((Ok(()), rf)) => (Ok(()), rf.await),
                            Either::Right((r, sf)) => (sf.await, r),
                        }
                    })
                    .await;
                    let p = &mut pairs[pi];
                    p.tx[f] = Some(tx);
                    p.rx[t] = Some(rx);
                    match r {
                        Ok((Ok(()), Ok(Some(buf)))) => {
                            let b: Bytes = buf.into();
                            if b != data {
                                out.fails.push(("C07/transfer".into(), "transferred data differs".into()));
                            }
                        }
                        // The remote receiver may have been closed earlier in the script.
                        Ok((Err(_), _)) => {}
                        other => {
                            let d = other.map(|(a, b)| (a, b.map(|o| o.map(|_| ()))));
                            out.fails.push(("C07/transfer".into(), format!("transfer failed: {d:?}")));
                        }
                    }
                }
                Step::PendingConnect { from, hold } => {
                    let f = *from as usize;
                    let t = 1 - f;
                    if clients[f].is_none() || listeners[t].is_none() {
                        continue;
                    }
                    if in_use(f, &pairs, &pendings) >= max_ports[f] {
                        continue;
                    }
                    let unanswered = pendings.iter().filter(|p| !p.resolved && p.from as usize == f).count();
                    let queue = if t == 0 { case.cfg_a.connect_queue } else { case.cfg_b.connect_queue } as usize;
                    if unanswered >= queue {
                        continue;
                    }
                    let Some(port) = allocs[f].try_allocate() else { continue };
                    let id = next_id;
                    next_id += 1;
                    let c = clients[f].as_ref().unwrap();
                    let mut connect = match c.connect_ext(Some(PortReq::new(port).with_id(id)), false).await {
                        Ok(c) => c,
                        Err(e) => {
                            out.fails.push(("C07/open-failed".into(), format!("connect_ext failed: {e}")));
                            continue;
                        }
                    };
                    let _ = sim::within(3000, connect.sent()).await;
                    let mut held = None;
                    if *hold && !pendings.iter().any(|p| !p.resolved && p.from as usize == f && p.held.is_none()) {
                        match sim::within(3000, listeners[t].as_mut().unwrap().inspect()).await {
                            Ok(Ok(Some(req))) if req.id() == id => held = Some(req),
                            other => {
                                out.fails.push(("C07/open-failed".into(), format!("pending request not delivered: {:?}", other.map(|r| r.map(|o| o.map(|r| r.id()))))));
                                continue;
                            }
                        }
                    }
                    pendings.push(Pending { from: *from, connect: Some(connect), held, id, resolved: false });
                    out.classes.push("pending-connect".into());
                }
                Step::DropHandle { pair, which } => {
                    let cand: Vec<usize> = (0..pairs.len()).filter(|&i| pairs[i].live()).collect();
                    if cand.is_empty() {
                        continue;
                    }
                    let p = &mut pairs[cand[*pair as usize % cand.len()]];
                    match which {
                        0 => p.tx[0] = None,
                        1 => p.rx[0] = None,
                        2 => p.tx[1] = None,
                        _ => p.rx[1] = None,
                    }
                }
                Step::CloseRx { pair, side } => {
                    let s = *side as usize;
                    let cand: Vec<usize> = (0..pairs.len()).filter(|&i| pairs[i].rx[s].is_some()).collect();
                    if cand.is_empty() {
                        continue;
                    }
                    let p = &mut pairs[cand[*pair as usize % cand.len()]];
                    let _ = sim::within(3000, p.rx[s].as_mut().unwrap().close()).await;
                    out.classes.push("close-then-drop".into());
                }
                Step::PartialSendDropTx { pair, side } => {
                    let s = *side as usize;
                    let cand: Vec<usize> = (0..pairs.len()).filter(|&i| pairs[i].tx[s].is_some()).collect();
                    if cand.is_empty() {
                        continue;
                    }
                    let p = &mut pairs[cand[*pair as usize % cand.len()]];
                    let mut tx = p.tx[s].take().unwrap();
                    let _ = sim::within(3000, async {
                        let cs = tx.send_chunks();
                        let _ = cs.send(Bytes::from_static(b"ab")).await;
                    })
                    .await;
                    drop(tx);
                    out.inflight_drop = true;
                    out.classes.push("sender-dropped-mid-message".into());
                }
                Step::BlockedSendDropRemoteRx { pair, side } => {
                    let s = *side as usize;
                    let t = 1 - s;
                    let cand: Vec<usize> = (0..pairs.len()).filter(|&i| pairs[i].tx[s].is_some() && pairs[i].rx[t].is_some()).collect();
                    if cand.is_empty() {
                        continue;
                    }
                    let pi = cand[*pair as usize % cand.len()];
                    let mut tx = pairs[pi].tx[s].take().unwrap();
                    let rb = if t == 0 { case.cfg_a.receive_buffer } else { case.cfg_b.receive_buffer } as usize;
                    let jh = spawn_actor(async move {
                        let r = tx.send(payload(5, rb + 20)).await;
                        (tx, r)
                    });
                    tokio::time::sleep(std::time::Duration::from_secs(settle_s)).await;
                    pairs[pi].rx[t] = None;
                    match sim::within(3000, jh).await {
                        Ok(Ok((tx, Err(_)))) => pairs[pi].tx[s] = Some(tx),
                        Ok(Ok((tx, Ok(())))) => pairs[pi].tx[s] = Some(tx),
                        _ => out.fails.push(("C07/blocked-send-hangs".into(), "send blocked on credits did not fail after the remote receiver was dropped".into())),
                    }
                    out.inflight_drop = true;
                    out.classes.push("receiver-dropped-under-blocked-send".into());
                }
                Step::ResolvePending { idx, how } => {
                    let cand: Vec<usize> = (0..pendings.len()).filter(|&i| !pendings[i].resolved).collect();
                    if cand.is_empty() {
                        continue;
                    }
                    let i = cand[*idx as usize % cand.len()];
                    let f = pendings[i].from as usize;
                    let t = 1 - f;
                    // Requests are queued in order: only the oldest un-inspected one can be taken.
                    if pendings[i].held.is_none() {
                        let oldest = (0..pendings.len()).find(|&j| !pendings[j].resolved && pendings[j].from as usize == f && pendings[j].held.is_none());
                        if oldest != Some(i) || listeners[t].is_none() {
                            continue;
                        }
                        match sim::within(3000, listeners[t].as_mut().unwrap().inspect()).await {
                            Ok(Ok(Some(req))) if req.id() == pendings[i].id => pendings[i].held = Some(req),
                            other => {
                                out.fails.push(("C07/open-failed".into(), format!("queued request {} not delivered: {:?}", pendings[i].id, other.map(|r| r.map(|o| o.map(|r| r.id()))))));
                                continue;
                            }
                        }
                    }
                    match how {
                        0 => {
                            // Drop the Connect future; then reject the request.
                            pendings[i].connect = None;
                            out.inflight_drop = true;
                            drop(pendings[i].held.take());
                            pendings[i].resolved = true;
                            // The rejection has to travel back before the request credit is free again.
                            tokio::time::sleep(std::time::Duration::from_secs(settle_s)).await;
                            out.classes.push("connect-future-dropped".into());
                        }
                        1 => {
                            drop(pendings[i].held.take());
                            if let Some(c) = pendings[i].connect.take() {
                                match sim::within(3000, c).await {
                                    Ok(Err(_)) => {}
                                    other => {
                                        let d = other.map(|r| r.map(|_| ()));
                                        out.fails.push(("C07/pending".into(), format!("dropped request did not reject its connect: {d:?}")));
                                    }
                                }
                            }
                            pendings[i].resolved = true;
                            out.inflight_drop = true;
                            out.classes.push("request-dropped".into());
                        }
                        _ => {
                            if in_use(t, &pairs, &pendings) >= max_ports[t] {
                                continue;
                            }
                            // A port number whose handles were just dropped is free again only after
                            // the drops have travelled to the peer and back; a no-wait accept before
                            // that rightly answers LocalPortsExhausted.
                            tokio::time::sleep(std::time::Duration::from_secs(settle_s)).await;
                            let req = pendings[i].held.take().unwrap();
                            let c = pendings[i].connect.take();
                            let r = sim::within(3000, async {
                                match c {
                                    Some(c) => {
                                        let (l, c) = tokio::join!(req.accept(), c);
                                        (l.ok(), c.ok())
                                    }
                                    None => (req.accept().await.ok(), None),
                                }
                            })
                            .await;
                            match r {
                                Ok((Some((ltx, lrx)), c)) => {
                                    let mut p = PairH { tx: [None, None], rx: [None, None] };
                                    p.tx[t] = Some(ltx);
                                    p.rx[t] = Some(lrx);
                                    if let Some((ctx, crx)) = c {
                                        p.tx[f] = Some(ctx);
                                        p.rx[f] = Some(crx);
                                    }
                                    pendings[i].resolved = true;
                                    pairs.push(p);
                                }
                                other => {
                                    let d = other.map(|(a, b)| (a.is_some(), b.is_some()));
                                    out.fails.push(("C07/pending".into(), format!("accepting a held request failed: {d:?}")));
                                }
                            }
                        }
                    }
                }
                Step::Checkpoint => {
                    if !uncertain {
                        checkpoint!(format!("checkpoint in cycle {ci}"))
                    }
                }
                Step::Pause => tokio::time::sleep(std::time::Duration::from_secs(3)).await,
            }
        }
        if !out.fails.is_empty() {
            break;
        }
        if case.leave_pending && ci + 1 == case.cycles.len() {
            // Everything that is left goes away together with the clients and listeners below.
            left_pending = pendings.iter().filter(|p| !p.resolved).count();
            if left_pending > 0 {
                out.classes.push("clients-dropped-with-unanswered-requests".into());
            }
            break;
        }
        // End of cycle: drop everything that is left, in generated order.
        loop {
            let mut items: Vec<(usize, u8)> = Vec::new();
            for (i, p) in pairs.iter().enumerate() {
                for w in 0..4u8 {
                    let live = match w {
                        0 => p.tx[0].is_some(),
                        1 => p.rx[0].is_some(),
                        2 => p.tx[1].is_some(),
                        _ => p.rx[1].is_some(),
                    };
                    if live {
                        items.push((i, w));
                    }
                }
            }
            let npend = pendings.iter().filter(|p| !p.resolved).count();
            if items.is_empty() && npend == 0 {
                break;
            }
            let k = next_order(items.len() + npend);
            if k < items.len() {
                let (i, w) = items[k];
                let p = &mut pairs[i];
                match w {
                    0 => p.tx[0] = None,
                    1 => p.rx[0] = None,
                    2 => p.tx[1] = None,
                    _ => p.rx[1] = None,
                }
            } else {
                let i = (0..pendings.len()).filter(|&i| !pendings[i].resolved).nth(k - items.len()).unwrap();
                pendings[i].connect = None;
                if pendings[i].held.is_none() {
                    // Still queued at the listener: take it out (in order) and drop it.
                    let f = pendings[i].from as usize;
                    if let Some(l) = listeners[1 - f].as_mut() {
                        // earlier queued ones first
                        for j in 0..pendings.len() {
                            if !pendings[j].resolved && pendings[j].from as usize == f && pendings[j].held.is_none() {
                                if let Ok(Ok(Some(req))) = sim::within(3000, l.inspect()).await {
                                    if j == i {
                                        drop(req);
                                        break;
                                    } else {
                                        pendings[j].held = Some(req);
                                    }
                                }
                            }
                        }
                    }
                } else {
                    drop(pendings[i].held.take());
                }
                pendings[i].resolved = true;
            }
            if next_order(4) == 0 {
                tokio::time::sleep(std::time::Duration::from_secs(1)).await;
            }
        }
        pairs.clear();
        pendings.clear();
        checkpoint!(format!("after cycle {ci} (everything dropped)"));
    }

    // Final: drop clients and listeners in a generated order; both dispatchers must finish Ok
    // without the transport being closed.
    // What the last cycle left behind is dropped before or after the clients and listeners.
    let mut late: Option<(Vec<PairH>, Vec<Pending>)> = None;
    if left_pending > 0 && next_order(2) == 1 {
        late = Some((pairs, pendings));
    } else {
        drop(pairs);
        drop(pendings);
    }
    let mut perm: Vec<usize> = vec![0, 1, 2, 3];
    let mut k = case.final_perm as usize;
    let mut order = Vec::new();
    while !perm.is_empty() {
        let i = k % perm.len();
        k /= perm.len().max(1);
        order.push(perm.remove(i));
    }
    for o in order {
        match o {
            0 => clients[0] = None,
            1 => clients[1] = None,
            2 => listeners[0] = None,
            _ => listeners[1] = None,
        }
        if next_order(3) == 0 {
            tokio::time::sleep(std::time::Duration::from_secs(1)).await;
        }
    }
    drop(late);
    drop(allocs);
    let deadline = 1000 + settle_s * 10;
    for (i, r) in [run_a, run_b].into_iter().enumerate() {
        match sim::within(deadline, r).await {
            Ok(Ok(Ok(()))) => {}
            Ok(Ok(Err(e))) => out.fails.push(("C07/dispatcher-error".into(), format!("dispatcher {i} ended with error {e} after everything was dropped"))),
            Ok(Err(e)) => out.fails.push(("C07/dispatcher-error".into(), format!("dispatcher {i} panicked: {e}"))),
            Err(()) => out.fails.push((
                "C07/dispatcher-does-not-finish".into(),
                format!("dispatcher {i} still running {deadline} virtual s after all ports, clients and listeners were dropped on both endpoints (transport open)"),
            )),
        }
    }
    if out.fails.is_empty() {
        tokio::time::sleep(std::time::Duration::from_secs(5)).await;
        let tasks = tokio::runtime::Handle::current().metrics().num_alive_tasks();
        if tasks > base_tasks {
            out.fails.push((
                "C07/tasks-left-behind".into(),
                format!("{} tasks alive after both dispatchers finished, {base_tasks} before the connection was made", tasks),
            ));
        }
    }
    let tap = link.tap();
    out.frames = tap.len() as u64 / 2;
    let st = wire::analyze(&tap);
    if let Some(v) = st.violations.iter().find(|v| v.sig.contains("port-number-reused") || v.sig.contains("unknown-port")) {
        out.fails.push((format!("C07/{}", v.sig), v.msg.clone()));
    }
    for side in 0..2 {
        if st.max_open[side] > max_ports[0].max(max_ports[1]) {
            out.fails.push(("C07/max-ports-exceeded".into(), format!("{} ports open concurrently by the wire, max_ports {:?}", st.max_open[side], max_ports)));
        }
    }
    out
}

pub fn run_case(case: &Case) -> Outcome {
    let tape = case.sched.tape();
    let res = sim::run_sim(case.sched.tokio_seed, &tape, case.sched.defer, execute(case));
    let mut out = Outcome::default();
    out.frames = res.frames;
    if let Some((s, m)) = res.fails.first() {
        out.fail(s.clone(), m.clone());
    }
    for c in &res.classes {
        out.class(c.clone());
    }
    if case.cycles.len() > 1 {
        out.class("multi-cycle");
    }
    out.nontrivial = res.inflight_drop && res.checkpoints >= 1;
    out
}

pub const RULE: &str = "cases = (Cfg pair with max_ports 1..8 and connect_queue 1..3, schedule, 1..4 (thorough 20) open/transfer/close cycles on one connection, each a script of opens by client connect and by port batches, transfers, pending connects (queued or held), handle drops in any order, close-then-drop, sender dropped mid-message, receiver dropped under a blocked send, dropped Connect futures / dropped or accepted held requests, checkpoints), leftover handles dropped in a generated order, clients/listeners dropped in a generated permutation; oracles = both dispatchers return Ok within the virtual deadline while the transport stays open, at every quiescent checkpoint try_allocate yields exactly max_ports - in_use(model) numbers on each endpoint (fewer = leaked, more = released before all four handles of the pair are gone), after the last cycle exactly max_ports, live task count back to the pre-connection baseline, wire port table (no number reused while open, never more than max_ports open); non-trivial = at least one handle dropped while its counterpart operation was in flight AND at least one checkpoint; distinct = distinct case hash";

pub fn main(tier: Tier, seed: u64) -> Report {
    let mut rep = Report::new("C07", tier, seed);
    rep.rule = RULE.into();
    rep.assumptions = vec![
        "port numbers are random 32-bit values, so reuse is decided by capacity probing instead of waiting for a reuse on the wire".into(),
        "checkpoints are taken at quiescence (virtual settle time) with no accept pending".into(),
        "single-threaded deterministic simulation; task-level interleavings only".into(),
    ];
    let regress: Vec<Case> = runner::load_regress::<Case>("C07", "gen").into_iter().map(|(_, c)| c).collect();
    if !regress.is_empty() {
        runner::run_cases(&mut rep, "regress", regress, run_case);
    }
    runner::run_generated(&mut rep, "gen", tier.pick(30_000, 150_000), || strategy(tier), run_case);
    rep
}

pub fn replay(_part: &str, case: serde_json::Value) -> (Option<runner::Failure>, u32, u32) {
    let c: Case = serde_json::from_value(case).expect("replay case does not parse as C07 case");
    let n = runner::replay_times(3);
    let (f, h) = runner::replay_case(&c, run_case, n);
    (f, h, n)
}
