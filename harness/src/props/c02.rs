//! C02 — Flow control safety: advertised receive buffer and chunk size never exceeded.
//! Invariant monitor over every prefix of the wire trace of the C01 and C03 workloads.

use crate::engine::runner::{self, Report, Tier};

use super::{c01, c03};

pub const RULE: &str = "cases = the C01 workload (data of all sizes, whole/try/chunked, cancels, asymmetric Cfg pairs) and the C03 workload (adds multi-port open batches, stalled ports) with schedules that delay individual frames by up to 10 virtual seconds; oracle = wire monitor built on the independent reference decoder: at every send event sent_cost - credits_delivered_to_sender <= receive_buffer advertised by the peer, every Data payload and 4*ports <= advertised chunk_size, and at every credit frame credits_granted <= cost delivered to the granter; non-trivial = the sender was at the credit limit at least once AND a credit frame was delayed >= 1 virtual second; distinct = distinct case hash";

pub fn main(tier: Tier, seed: u64) -> Report {
    let mut rep = Report::new("C02", tier, seed);
    rep.rule = RULE.into();
    rep.assumptions = vec![
        "the tap sees every frame in link order; 'credit delivered to the sender' = the frame was handed to the sender's transport stream".into(),
        "cost of a Data frame = max(len,1), of a PortData frame = 4 per port (as documented for the protocol)".into(),
    ];
    let r1: Vec<c01::Case> = runner::load_regress::<c01::Case>("C02", "c01-workload").into_iter().map(|(_, c)| c).collect();
    if !r1.is_empty() {
        runner::run_cases(&mut rep, "regress-c01-workload", r1, c01::run_case_c02);
    }
    let r2: Vec<c03::Case> = runner::load_regress::<c03::Case>("C02", "c03-workload").into_iter().map(|(_, c)| c).collect();
    if !r2.is_empty() {
        runner::run_cases(&mut rep, "regress-c03-workload", r2, c03::run_case_c02);
    }
    runner::run_generated(&mut rep, "c01-workload", tier.pick(6000, 200_000), || c01::strategy(tier), c01::run_case_c02);
    runner::run_generated(&mut rep, "c03-workload", tier.pick(6000, 200_000), || c03::strategy(tier), c03::run_case_c02);
    rep
}

pub fn replay(part: &str, case: serde_json::Value) -> (Option<runner::Failure>, u32, u32) {
    if part.contains("c03") {
        let case: c03::Case = serde_json::from_value(case).expect("replay case does not parse");
        let (f, hits) = runner::replay_case(&case, c03::run_case_c02, 5);
        (f, hits, 5)
    } else {
        let case: c01::Case = serde_json::from_value(case).expect("replay case does not parse");
        let (f, hits) = runner::replay_case(&case, c01::run_case_c02, 5);
        (f, hits, 5)
    }
}
