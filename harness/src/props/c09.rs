//! C09 — Wire format of protocol version 3 is stable and version-negotiated.
//!
//! A real endpoint talks to `RefPeer` (independent reference codec). A generated conversation
//! script drives both sides; every frame the real endpoint emits must be byte-identical to
//! the reference encoding of the message the protocol prescribes for that API action, and every
//! reference-encoded message must produce the documented reaction at the real endpoint's API.

use bytes::{Bytes, BytesMut};
use proptest::prelude::*;
use serde::{Deserialize, Serialize};

use crate::engine::{
    gen::{payload, GCfg},
    link::SimLink,
    peer::{PeerErr, RefPeer, Rx},
    refcodec::{RefCfg, RefMsg},
    runner::{self, Outcome, Report, Tier},
    sim::{self, spawn_actor, Tape},
};
use remoc::chmux::{self, ChMux, ConnectError, PortReq, Received};

#[derive(Clone, Debug, Serialize, Deserialize, PartialEq, Eq, Hash)]
pub enum Handle {
    Accept,
    Reject(bool),
    DropReq,
}

#[derive(Clone, Debug, Serialize, Deserialize, PartialEq, Eq, Hash)]
pub enum Act {
    /// Real endpoint connects through its client; peer answers.
    RealConnect { wait: bool, open: Option<u32>, no_ports: bool },
    /// Peer sends OpenPort; real endpoint handles the request.
    PeerOpen { port: u32, wait: bool, id: Option<u32>, handle: Handle },
    /// Real endpoint sends a whole message.
    RealSend { port: u8, len: u16 },
    /// Real endpoint streams a message chunk by chunk.
    RealSendChunks { port: u8, pieces: Vec<u8>, send_final: bool },
    /// Peer sends a message as the given chunks; optionally preceded by an unfinished message.
    PeerSend { port: u8, chunks: Vec<u8>, cancelled_prefix: Option<u8> },
    /// Real endpoint sends port-open requests over a port; peer answers each (Some = opened).
    RealBatch { port: u8, n: u8, wait: bool, ids: Vec<u32>, open: Vec<bool> },
    /// Peer sends PortData; real endpoint accepts/rejects each.
    PeerBatch { port: u8, ports: Vec<u32>, ids: Option<Vec<u32>>, wait: bool, split: bool, accept: Vec<bool> },
    /// Real endpoint sends more than the peer's buffer; peer grants credits in steps.
    CreditStep { port: u8, extra: u8, grant: u8 },
    RealCloseRx { port: u8 },
    PeerReceiveClose { port: u8 },
    PeerReceiveFinish { port: u8 },
    PeerSendFinish { port: u8 },
    RealDropTx { port: u8 },
    RealDropRx { port: u8 },
    /// Idle for n ping intervals.
    Idle { n: u8 },
}

#[derive(Clone, Debug, Serialize, Deserialize, PartialEq, Eq, Hash)]
pub struct Case {
    pub real: GCfg,
    pub peer: RefCfg,
    pub peer_version: u8,
    pub acts: Vec<Act>,
    /// End with an orderly shutdown conversation.
    pub shutdown: bool,
}

fn u32_boundary() -> BoxedStrategy<u32> {
    prop_oneof![
        3 => any::<u32>(),
        1 => Just(0u32),
        1 => Just(1u32),
        1 => Just(u32::MAX),
        1 => Just(1u32 << 31),
        1 => Just(0x0102_0304u32),
    ]
    .boxed()
}

pub fn act_strategy() -> BoxedStrategy<Act> {
    prop_oneof![
        3 => (any::<bool>(), proptest::option::weighted(0.75, u32_boundary()), any::<bool>())
            .prop_map(|(wait, open, no_ports)| Act::RealConnect { wait, open, no_ports }),
        3 => (u32_boundary(), any::<bool>(), proptest::option::of(u32_boundary()),
              prop_oneof![3 => Just(Handle::Accept), 1 => any::<bool>().prop_map(Handle::Reject), 1 => Just(Handle::DropReq)])
            .prop_map(|(port, wait, id, handle)| Act::PeerOpen { port, wait, id, handle }),
        3 => (any::<u8>(), prop_oneof![0u16..=40, 0u16..=300, Just(0u16)]).prop_map(|(port, len)| Act::RealSend { port, len }),
        2 => (any::<u8>(), proptest::collection::vec(0u8..=40, 0..4), any::<bool>())
            .prop_map(|(port, pieces, send_final)| Act::RealSendChunks { port, pieces, send_final }),
        4 => (any::<u8>(), proptest::collection::vec(0u8..=64, 1..5), proptest::option::weighted(0.25, 0u8..=20))
            .prop_map(|(port, chunks, cancelled_prefix)| Act::PeerSend { port, chunks, cancelled_prefix }),
        2 => (any::<u8>(), 1u8..=5, any::<bool>(), proptest::collection::vec(u32_boundary(), 5), proptest::collection::vec(any::<bool>(), 5))
            .prop_map(|(port, n, wait, ids, open)| Act::RealBatch { port, n, wait, ids, open }),
        2 => (any::<u8>(), proptest::collection::vec(u32_boundary(), 0..5), any::<bool>(), any::<bool>(), any::<bool>(), proptest::collection::vec(any::<bool>(), 5), proptest::collection::vec(u32_boundary(), 5))
            .prop_map(|(port, ports, with_ids, wait, split, accept, idv)| {
                let ids = with_ids.then(|| idv[..ports.len()].to_vec());
                Act::PeerBatch { port, ports, ids, wait, split, accept }
            }),
        2 => (any::<u8>(), 1u8..=30, 1u8..=30).prop_map(|(port, extra, grant)| Act::CreditStep { port, extra, grant }),
        1 => any::<u8>().prop_map(|port| Act::RealCloseRx { port }),
        1 => any::<u8>().prop_map(|port| Act::PeerReceiveClose { port }),
        1 => any::<u8>().prop_map(|port| Act::PeerReceiveFinish { port }),
        1 => any::<u8>().prop_map(|port| Act::PeerSendFinish { port }),
        1 => any::<u8>().prop_map(|port| Act::RealDropTx { port }),
        1 => any::<u8>().prop_map(|port| Act::RealDropRx { port }),
        1 => (1u8..=3).prop_map(|n| Act::Idle { n }),
    ]
    .boxed()
}

pub fn peer_cfg() -> BoxedStrategy<RefCfg> {
    (
        prop_oneof![Just(0u64), Just(2_000u64), Just(60_000u64), Just(1u64), Just(u64::MAX), Just(86_400_000u64)],
        prop_oneof![4u32..=64, Just(4u32), Just(16_384u32), Just(u32::MAX - 16)],
        prop_oneof![4u32..=256, Just(4u32), Just(7u32), Just(524_288u32), Just(u32::MAX)],
        prop_oneof![1u16..=4, Just(1u16), Just(u16::MAX)],
    )
        .prop_map(|(timeout_ms, chunk_size, receive_buffer, connect_queue)| RefCfg { timeout_ms, chunk_size, receive_buffer, connect_queue })
        .boxed()
}

pub fn real_cfg() -> BoxedStrategy<GCfg> {
    (
        prop_oneof![8u32..=64, Just(4u32), Just(64u32)],
        prop_oneof![64u32..=256, Just(16u32), Just(256u32)],
        1usize..=4,
        1usize..=4,
        1usize..=4,
        1u16..=4,
        prop_oneof![Just(None), Just(Some(60u32)), Just(Some(3600u32))],
    )
        .prop_map(|(chunk_size, receive_buffer, shared_q, tsend_q, trecv_q, connect_queue, timeout_s)| GCfg {
            chunk_size,
            receive_buffer,
            max_data_size: 1 << 20,
            shared_q,
            tsend_q,
            trecv_q,
            connect_queue,
            max_ports: 1000,
            max_received_ports: 16,
            timeout_s,
        })
        .boxed()
}

pub fn strategy(tier: Tier) -> BoxedStrategy<Case> {
    let n = tier.pick(14, 30);
    (
        real_cfg(),
        peer_cfg(),
        prop_oneof![3 => Just(3u8), 2 => Just(2u8), 1 => Just(4u8)],
        proptest::collection::vec(act_strategy(), 0..n),
        any::<bool>(),
    )
        .prop_map(|(real, peer, peer_version, acts, shutdown)| Case { real, peer, peer_version, acts, shutdown })
        .boxed()
}

pub struct Port {
    /// Port number on the real endpoint / on the peer.
    pub real: u32,
    pub peer: u32,
    pub tx: Option<chmux::Sender>,
    pub rx: Option<chmux::Receiver>,
    /// Peer told real that it closed / finished its receiver.
    pub peer_recv_closed: bool,
    pub peer_send_finished: bool,
    pub peer_recv_finished: bool,
    pub real_rx_closed: bool,
    /// Credits the peer may still use towards the real endpoint on this port.
    pub avail: u64,
    pub msg_ctr: u32,
}

pub struct Conv {
    pub peer: RefPeer,
    pub client: Option<chmux::Client>,
    pub listener: Option<chmux::Listener>,
    pub ports: Vec<Port>,
    pub used_peer_ports: std::collections::HashSet<u32>,
    pub real_rb: u64,
    pub real_cs: u64,
    pub tuples: std::collections::BTreeSet<String>,
    pub skipped: u32,
    pub executed: u32,
}

pub type R<T> = Result<T, (String, String)>;

fn err<T>(sig: &str, msg: impl Into<String>) -> R<T> {
    Err((sig.to_string(), msg.into()))
}

const WAIT_MS: u64 = 30_000;

impl Conv {
    fn with_ids(&self) -> bool {
        self.peer.version >= 3
    }

    fn tuple(&mut self, dir: &str, m: &RefMsg) {
        let t = match m {
            RefMsg::OpenPort { wait, id, .. } => format!("{dir} OpenPort wait={wait} id={}", id.is_some()),
            RefMsg::Rejected { no_ports, .. } => format!("{dir} Rejected no_ports={no_ports}"),
            RefMsg::Data { first, last, .. } => format!("{dir} Data first={first} last={last}"),
            RefMsg::PortData { first, last, wait, ports, ids, .. } => format!(
                "{dir} PortData first={first} last={last} wait={wait} ids={} n={}",
                ids.is_some(),
                ports.len().min(2)
            ),
            other => format!("{dir} {}", other.kind()),
        };
        self.tuples.insert(t);
    }

    async fn peer_send(&mut self, m: RefMsg) -> R<()> {
        self.tuple("ref->real", &m);
        self.peer.send(&m).await.map_err(|e| ("C09/peer-send-failed".to_string(), e))
    }

    /// Expects exactly this message next (ignoring credits and pings), byte for byte.
    async fn expect(&mut self, want: &RefMsg, want_payload: Option<&[u8]>, what: &str) -> R<Rx> {
        let rx = match self.peer.next_significant(WAIT_MS).await {
            Ok(rx) => rx,
            Err(PeerErr::Timeout) => return err("C09/missing-frame", format!("{what}: expected {want:?}, nothing arrived")),
            Err(PeerErr::Closed(e)) => return err("C09/connection-ended", format!("{what}: expected {want:?}, connection ended: {e}")),
            Err(PeerErr::Bad(e)) => return err("C09/bad-encoding", format!("{what}: {e}")),
        };
        let want_bytes = want.encode();
        if rx.raw[..] != want_bytes[..] {
            return err(
                "C09/wrong-bytes",
                format!("{what}: real endpoint emitted {:?} ({:?}), documented layout requires {:?} ({want:?})", &rx.raw[..], rx.msg, want_bytes),
            );
        }
        if let Some(wp) = want_payload {
            match &rx.payload {
                Some(p) if &p[..] == wp => {}
                other => {
                    return err(
                        "C09/wrong-payload",
                        format!("{what}: payload frame {:?} differs from expected {} bytes", other.as_ref().map(|p| p.len()), wp.len()),
                    )
                }
            }
        }
        self.tuple("real->ref", &rx.msg);
        Ok(rx)
    }

    /// Nothing but credits/pings may arrive within `ms`.
    async fn expect_quiet(&mut self, ms: u64, what: &str) -> R<()> {
        match self.peer.next_significant(ms).await {
            Err(PeerErr::Timeout) => Ok(()),
            Ok(rx) => err("C09/unexpected-frame", format!("{what}: unexpected {:?}", rx.msg)),
            Err(PeerErr::Closed(e)) => err("C09/connection-ended", format!("{what}: connection ended: {e}")),
            Err(PeerErr::Bad(e)) => err("C09/bad-encoding", format!("{what}: {e}")),
        }
    }

    /// Collects credits the real endpoint returned and checks their encoding/port.
    pub fn absorb_credits(&mut self) -> R<()> {
        let seen = std::mem::take(&mut self.peer.credits_seen);
        for (port, credits) in seen {
            match self.ports.iter_mut().find(|p| p.peer == port) {
                Some(p) => {
                    p.avail += credits as u64;
                    if p.avail > self.real_rb {
                        return err(
                            "C09/credits-exceed-consumed",
                            format!("real endpoint granted more credit on port {port} than was consumed (avail {} > buffer {})", p.avail, self.real_rb),
                        );
                    }
                    self.tuples.insert("real->ref PortCredits".into());
                }
                None => return err("C09/credits-unknown-port", format!("PortCredits for unknown peer port {port}")),
            }
        }
        Ok(())
    }

    pub fn fresh_peer_port(&mut self, want: u32) -> u32 {
        let mut p = want;
        while self.used_peer_ports.contains(&p) {
            p = p.wrapping_add(1);
        }
        self.used_peer_ports.insert(p);
        p
    }

    fn add_port(&mut self, real: u32, peer: u32, tx: chmux::Sender, rx: chmux::Receiver) -> R<()> {
        if tx.local_port() != real || rx.local_port() != real || tx.remote_port() != peer || rx.remote_port() != peer {
            return err(
                "C09/port-pairing",
                format!(
                    "port pair reports local {} / remote {}, wire says real {real} / peer {peer}",
                    tx.local_port(),
                    tx.remote_port()
                ),
            );
        }
        self.ports.push(Port {
            real,
            peer,
            tx: Some(tx),
            rx: Some(rx),
            peer_recv_closed: false,
            peer_send_finished: false,
            peer_recv_finished: false,
            real_rx_closed: false,
            avail: self.real_rb,
            msg_ctr: 0,
        });
        Ok(())
    }

    fn pick(&self, sel: u8, f: impl Fn(&Port) -> bool) -> Option<usize> {
        let idx: Vec<usize> = self.ports.iter().enumerate().filter(|(_, p)| f(p)).map(|(i, _)| i).collect();
        if idx.is_empty() {
            None
        } else {
            Some(idx[sel as usize % idx.len()])
        }
    }

    /// Expected chunking of `len` bytes sent by the real endpoint with a full credit pool.
    fn chunks_of(&self, len: usize) -> Vec<usize> {
        let cs = self.peer.cfg.chunk_size as usize;
        let mut v = Vec::new();
        let mut rest = len;
        while rest > 0 {
            let c = rest.min(cs);
            v.push(c);
            rest -= c;
        }
        v
    }

    /// Peer returns all credit for a port (it "consumed" everything).
    async fn grant(&mut self, pi: usize, credits: u64) -> R<()> {
        if credits > 0 && !self.ports[pi].peer_recv_finished {
            let real = self.ports[pi].real;
            self.peer_send(RefMsg::PortCredits { port: real, credits: credits as u32 }).await?;
        }
        Ok(())
    }

    async fn handle_open(&mut self, req: chmux::Request, q: u32, handle: &Handle, what: &str) -> R<()> {
        match handle {
            Handle::Accept => {
                let jh = spawn_actor(req.accept());
                let rx = match self.peer.next_significant(WAIT_MS).await {
                    Ok(rx) => rx,
                    Err(e) => return err("C09/missing-frame", format!("{what}: expected PortOpened, got {e:?}")),
                };
                let RefMsg::PortOpened { client_port, server_port } = rx.msg else {
                    return err("C09/wrong-bytes", format!("{what}: expected PortOpened, got {:?}", rx.msg));
                };
                if client_port != q {
                    return err("C09/wrong-bytes", format!("{what}: PortOpened.client_port {client_port} != requested {q}"));
                }
                self.tuple("real->ref", &rx.msg);
                let (tx, rxr) = match sim::within(60, jh).await {
                    Ok(Ok(Ok(p))) => p,
                    other => return err("C09/api-reaction", format!("{what}: accept failed: {:?}", other.map(|r| r.map(|r| r.map(|_| ())))),),
                };
                self.add_port(server_port, q, tx, rxr)?;
            }
            Handle::Reject(np) => {
                req.reject(*np).await;
                self.expect(&RefMsg::Rejected { client_port: q, no_ports: *np }, None, what).await?;
                self.used_peer_ports.remove(&q);
            }
            Handle::DropReq => {
                drop(req);
                self.expect(&RefMsg::Rejected { client_port: q, no_ports: false }, None, what).await?;
                self.used_peer_ports.remove(&q);
            }
        }
        Ok(())
    }

    pub async fn act(&mut self, a: &Act) -> R<bool> {
        match a {
            Act::RealConnect { wait, open, no_ports } => {
                let Some(client) = self.client.clone() else { return Ok(false) };
                let wait = *wait;
                let mut connect = match client.connect_ext(None, wait).await {
                    Ok(c) => c,
                    Err(e) => return err("C09/api-reaction", format!("connect_ext failed: {e}")),
                };
                let rx = match self.peer.next_significant(WAIT_MS).await {
                    Ok(rx) => rx,
                    Err(e) => return err("C09/missing-frame", format!("RealConnect: expected OpenPort, got {e:?}")),
                };
                let RefMsg::OpenPort { client_port, wait: w, id } = rx.msg.clone() else {
                    return err("C09/wrong-bytes", format!("RealConnect: expected OpenPort, got {:?}", rx.msg));
                };
                let want_id = self.with_ids().then_some(client_port);
                if w != wait || id != want_id {
                    return err(
                        "C09/wrong-bytes",
                        format!("RealConnect(wait={wait}) to a version-{} peer: got {:?}, id must be {want_id:?}", self.peer.version, rx.msg),
                    );
                }
                self.tuple("real->ref", &rx.msg);
                connect.sent().await;
                match open {
                    Some(q) => {
                        let q = self.fresh_peer_port(*q);
                        self.peer_send(RefMsg::PortOpened { client_port, server_port: q }).await?;
                        match sim::within(60, connect).await {
                            Ok(Ok((tx, rxr))) => self.add_port(client_port, q, tx, rxr)?,
                            other => return err("C09/api-reaction", format!("PortOpened not honoured: {:?}", other.map(|r| r.map(|_| ())))),
                        }
                    }
                    None => {
                        self.peer_send(RefMsg::Rejected { client_port, no_ports: *no_ports }).await?;
                        match sim::within(60, connect).await {
                            Ok(Err(ConnectError::RemotePortsExhausted)) if *no_ports => {}
                            Ok(Err(ConnectError::Rejected)) if !*no_ports => {}
                            other => {
                                return err(
                                    "C09/api-reaction",
                                    format!("Rejected{{no_ports={no_ports}}} gave {:?}", other.map(|r| r.map(|_| ()))),
                                )
                            }
                        }
                    }
                }
            }
            Act::PeerOpen { port, wait, id, handle } => {
                if self.listener.is_none() {
                    return Ok(false);
                }
                let q = self.fresh_peer_port(*port);
                self.peer_send(RefMsg::OpenPort { client_port: q, wait: *wait, id: *id }).await?;
                let req = match sim::within(60, self.listener.as_mut().unwrap().inspect()).await {
                    Ok(Ok(Some(r))) => r,
                    other => return err("C09/api-reaction", format!("OpenPort not delivered to listener: {:?}", other.map(|r| r.map(|r| r.map(|_| ()))))),
                };
                if req.remote_port() != q || req.id() != id.unwrap_or(q) || req.is_wait() != *wait {
                    return err(
                        "C09/api-reaction",
                        format!(
                            "OpenPort{{port {q}, wait {wait}, id {id:?}}} seen as remote_port {} id {} wait {}",
                            req.remote_port(),
                            req.id(),
                            req.is_wait()
                        ),
                    );
                }
                self.handle_open(req, q, handle, "PeerOpen").await?;
            }
            Act::RealSend { port, len } => {
                let Some(pi) = self.pick(*port, |p| p.tx.is_some() && !p.peer_recv_closed && !p.peer_recv_finished) else {
                    return Ok(false);
                };
                let len = (*len as usize).min(self.peer.cfg.receive_buffer as usize);
                let id = self.ports[pi].msg_ctr;
                self.ports[pi].msg_ctr += 1;
                let data = payload(id, len);
                let mut tx = self.ports[pi].tx.take().unwrap();
                let d2 = data.clone();
                let jh = spawn_actor(async move {
                    let r = tx.send(d2).await;
                    (tx, r)
                });
                let q = self.ports[pi].peer;
                let chunks = if len == 0 { vec![0] } else { self.chunks_of(len) };
                let mut off = 0;
                let n = chunks.len();
                for (k, c) in chunks.iter().enumerate() {
                    self.expect(
                        &RefMsg::Data { port: q, first: k == 0, last: k + 1 == n },
                        Some(&data[off..off + c]),
                        "RealSend",
                    )
                    .await?;
                    off += c;
                }
                let (tx, r) = match sim::within(60, jh).await {
                    Ok(Ok(x)) => x,
                    _ => return err("C09/api-reaction", "send did not complete"),
                };
                if let Err(e) = r {
                    return err("C09/api-reaction", format!("send failed: {e}"));
                }
                self.ports[pi].tx = Some(tx);
                self.grant(pi, (len as u64).max(1)).await?;
            }
            Act::RealSendChunks { port, pieces, send_final } => {
                let Some(pi) = self.pick(*port, |p| p.tx.is_some() && !p.peer_recv_closed && !p.peer_recv_finished) else {
                    return Ok(false);
                };
                let cost: u64 = pieces.iter().map(|p| (*p as u64).max(1)).sum::<u64>() + 1;
                if cost > self.peer.cfg.receive_buffer as u64 {
                    return Ok(false);
                }
                let id = self.ports[pi].msg_ctr;
                self.ports[pi].msg_ctr += 1;
                let total: usize = pieces.iter().map(|p| *p as usize).sum();
                let data = payload(id, total);
                let mut tx = self.ports[pi].tx.take().unwrap();
                let d2 = data.clone();
                let pcs = pieces.clone();
                let sf = *send_final && !pieces.is_empty();
                let jh = spawn_actor(async move {
                    let r = async {
                        let mut rest = d2;
                        let mut cs = tx.send_chunks();
                        let n = pcs.len();
                        for (k, p) in pcs.iter().enumerate() {
                            let piece = rest.split_to(*p as usize);
                            if sf && k + 1 == n {
                                return cs.send_final(piece).await;
                            }
                            cs = cs.send(piece).await?;
                        }
                        cs.finish().await
                    }
                    .await;
                    (tx, r)
                });
                // Expected frames.
                let q = self.ports[pi].peer;
                let mut frames: Vec<(usize, usize, bool)> = Vec::new(); // (offset, len, last)
                let mut off = 0;
                for (k, p) in pieces.iter().enumerate() {
                    let is_final_piece = sf && k + 1 == pieces.len();
                    if *p == 0 {
                        frames.push((off, 0, is_final_piece));
                    } else {
                        let cs = self.chunks_of(*p as usize);
                        let m = cs.len();
                        for (j, c) in cs.iter().enumerate() {
                            frames.push((off, *c, is_final_piece && j + 1 == m));
                            off += c;
                        }
                    }
                }
                if !sf {
                    frames.push((off, 0, true));
                }
                let mut used = 0u64;
                for (k, (o, l, last)) in frames.iter().enumerate() {
                    self.expect(&RefMsg::Data { port: q, first: k == 0, last: *last }, Some(&data[*o..*o + *l]), "RealSendChunks").await?;
                    used += (*l as u64).max(1);
                }
                let (tx, r) = match sim::within(60, jh).await {
                    Ok(Ok(x)) => x,
                    _ => return err("C09/api-reaction", "chunked send did not complete"),
                };
                if let Err(e) = r {
                    return err("C09/api-reaction", format!("chunked send failed: {e}"));
                }
                self.ports[pi].tx = Some(tx);
                self.grant(pi, used).await?;
            }
            Act::PeerSend { port, chunks, cancelled_prefix } => {
                self.absorb_credits()?;
                let Some(pi) = self.pick(*port, |p| p.rx.is_some() && !p.peer_send_finished) else { return Ok(false) };
                let cs = self.real_cs as usize;
                let chunks: Vec<usize> = chunks.iter().map(|c| (*c as usize).min(cs)).collect();
                let prefix = cancelled_prefix.map(|c| (c as usize).min(cs));
                let cost: u64 = chunks.iter().map(|c| (*c as u64).max(1)).sum::<u64>() + prefix.map(|c| (c as u64).max(1)).unwrap_or(0);
                if cost > self.ports[pi].avail {
                    return Ok(false);
                }
                self.ports[pi].avail -= cost;
                let real = self.ports[pi].real;
                if let Some(pl) = prefix {
                    // An unfinished message (first, not last), superseded by the next one.
                    self.tuple("ref->real", &RefMsg::Data { port: real, first: true, last: false });
                    self.peer.send_data(real, true, false, payload(77, pl)).await.map_err(|e| ("C09/peer-send-failed".to_string(), e))?;
                }
                let id = 5000 + self.ports[pi].msg_ctr;
                self.ports[pi].msg_ctr += 1;
                let mut whole = BytesMut::new();
                let n = chunks.len();
                for (k, c) in chunks.iter().enumerate() {
                    let d = payload(id + k as u32 * 7, *c);
                    whole.extend_from_slice(&d);
                    self.tuple("ref->real", &RefMsg::Data { port: real, first: k == 0, last: k + 1 == n });
                    self.peer.send_data(real, k == 0, k + 1 == n, d).await.map_err(|e| ("C09/peer-send-failed".to_string(), e))?;
                }
                let rx = self.ports[pi].rx.as_mut().unwrap();
                match sim::within(60, rx.recv_any()).await {
                    Ok(Ok(Some(Received::Data(buf)))) => {
                        let got: Bytes = buf.into();
                        if got != whole {
                            return err(
                                "C09/api-reaction",
                                format!("reference-encoded message of chunks {chunks:?} (cancelled prefix {prefix:?}) received as {} bytes / different content", got.len()),
                            );
                        }
                    }
                    other => return err("C09/api-reaction", format!("Data chunks {chunks:?} not received as one message: {:?}", other.map(|r| r.map(|o| o.map(|_| ()))))),
                }
            }
            Act::RealBatch { port, n, wait, ids, open } => {
                let Some(pi) = self.pick(*port, |p| p.tx.is_some() && !p.peer_recv_closed && !p.peer_recv_finished) else {
                    return Ok(false);
                };
                let n = (*n as usize).min(self.peer.cfg.receive_buffer as usize / 4).min(self.peer.cfg.chunk_size as usize / 4 * 8);
                if n == 0 {
                    return Ok(false);
                }
                let mut tx = self.ports[pi].tx.take().unwrap();
                let alloc = tx.port_allocator();
                let mut reqs = Vec::new();
                let mut nums = Vec::new();
                for k in 0..n {
                    let p = alloc.try_allocate().unwrap();
                    nums.push(*p);
                    reqs.push(PortReq::new(p).with_id(ids[k]));
                }
                let wait = *wait;
                let jh = spawn_actor(async move {
                    let r = tx.connect(reqs, wait).await;
                    (tx, r)
                });
                let q = self.ports[pi].peer;
                let per = (self.peer.cfg.chunk_size as usize / 4).max(1);
                let mut k = 0;
                while k < n {
                    let m = per.min(n - k);
                    let want = RefMsg::PortData {
                        port: q,
                        first: k == 0,
                        last: k + m == n,
                        wait,
                        ports: nums[k..k + m].to_vec(),
                        ids: self.with_ids().then(|| ids[k..k + m].to_vec()),
                    };
                    self.expect(&want, None, "RealBatch").await?;
                    k += m;
                }
                let (tx, r) = match sim::within(60, jh).await {
                    Ok(Ok(x)) => x,
                    _ => return err("C09/api-reaction", "Sender::connect did not complete"),
                };
                self.ports[pi].tx = Some(tx);
                let connects = match r {
                    Ok(c) => c,
                    Err(e) => return err("C09/api-reaction", format!("Sender::connect failed: {e}")),
                };
                self.grant(pi, 4 * n as u64).await?;
                for (k, c) in connects.into_iter().enumerate() {
                    if open[k] {
                        let sp = self.fresh_peer_port(9000 + k as u32);
                        self.peer_send(RefMsg::PortOpened { client_port: nums[k], server_port: sp }).await?;
                        match sim::within(60, c).await {
                            Ok(Ok((tx, rxr))) => self.add_port(nums[k], sp, tx, rxr)?,
                            other => return err("C09/api-reaction", format!("batch PortOpened not honoured: {:?}", other.map(|r| r.map(|_| ())))),
                        }
                    } else {
                        let np = k % 2 == 0;
                        self.peer_send(RefMsg::Rejected { client_port: nums[k], no_ports: np }).await?;
                        match sim::within(60, c).await {
                            Ok(Err(ConnectError::RemotePortsExhausted)) if np => {}
                            Ok(Err(ConnectError::Rejected)) if !np => {}
                            other => return err("C09/api-reaction", format!("batch Rejected{{no_ports={np}}} gave {:?}", other.map(|r| r.map(|_| ())))),
                        }
                    }
                }
            }
            Act::PeerBatch { port, ports, ids, wait, split, accept } => {
                self.absorb_credits()?;
                let Some(pi) = self.pick(*port, |p| p.rx.is_some() && !p.peer_send_finished) else { return Ok(false) };
                let n = ports.len();
                // A port message without ports is charged one credit (like an empty data message).
                let cost = (4 * n as u64).max(1);
                if cost > self.ports[pi].avail || cost > self.real_cs {
                    return Ok(false);
                }
                let mut qs = Vec::new();
                for p in ports {
                    qs.push(self.fresh_peer_port(*p));
                }
                self.ports[pi].avail -= cost;
                let real = self.ports[pi].real;
                let ids_v = ids.clone();
                if *split && n >= 2 {
                    let h = n / 2;
                    self.peer_send(RefMsg::PortData {
                        port: real,
                        first: true,
                        last: false,
                        wait: *wait,
                        ports: qs[..h].to_vec(),
                        ids: ids_v.as_ref().map(|i| i[..h].to_vec()),
                    })
                    .await?;
                    self.peer_send(RefMsg::PortData {
                        port: real,
                        first: false,
                        last: true,
                        wait: *wait,
                        ports: qs[h..].to_vec(),
                        ids: ids_v.as_ref().map(|i| i[h..].to_vec()),
                    })
                    .await?;
                } else {
                    self.peer_send(RefMsg::PortData { port: real, first: true, last: true, wait: *wait, ports: qs.clone(), ids: ids_v.clone() })
                        .await?;
                }
                let rx = self.ports[pi].rx.as_mut().unwrap();
                let reqs = match sim::within(60, rx.recv_any()).await {
                    Ok(Ok(Some(Received::Requests(r)))) => r,
                    other => return err("C09/api-reaction", format!("PortData not received as requests: {:?}", other.map(|r| r.map(|o| o.map(|_| ()))))),
                };
                if reqs.len() != n {
                    return err("C09/api-reaction", format!("PortData with {n} ports received as {} requests", reqs.len()));
                }
                for (k, req) in reqs.into_iter().enumerate() {
                    let want_id = ids_v.as_ref().map(|i| i[k]).unwrap_or(qs[k]);
                    if req.remote_port() != qs[k] || req.id() != want_id || req.is_wait() != *wait {
                        return err(
                            "C09/api-reaction",
                            format!(
                                "PortData entry {k}: port {} id {want_id} wait {wait} seen as port {} id {} wait {}",
                                qs[k],
                                req.remote_port(),
                                req.id(),
                                req.is_wait()
                            ),
                        );
                    }
                    let h = if accept[k] { Handle::Accept } else { Handle::Reject(k % 2 == 1) };
                    self.handle_open(req, qs[k], &h, "PeerBatch").await?;
                }
            }
            Act::CreditStep { port, extra, grant } => {
                let Some(pi) = self.pick(*port, |p| p.tx.is_some() && !p.peer_recv_closed && !p.peer_recv_finished) else {
                    return Ok(false);
                };
                let rb = self.peer.cfg.receive_buffer as usize;
                if rb > 4096 {
                    return Ok(false);
                }
                let extra = *extra as usize;
                let len = rb + extra;
                let id = self.ports[pi].msg_ctr;
                self.ports[pi].msg_ctr += 1;
                let data = payload(id, len);
                let mut tx = self.ports[pi].tx.take().unwrap();
                let d2 = data.clone();
                let jh = spawn_actor(async move {
                    let r = tx.send(d2).await;
                    (tx, r)
                });
                let q = self.ports[pi].peer;
                let real = self.ports[pi].real;
                // Phase 1: exactly rb bytes arrive.
                let mut off = 0;
                let mut first = true;
                for c in self.chunks_of(rb) {
                    self.expect(&RefMsg::Data { port: q, first, last: false }, Some(&data[off..off + c]), "CreditStep/initial window").await?;
                    first = false;
                    off += c;
                }
                self.expect_quiet(500, "CreditStep: sender must stop at the advertised receive buffer").await?;
                // Phase 2: grant g credits -> exactly min(g, rest) more bytes.
                let g = (*grant as usize).min(extra);
                self.peer_send(RefMsg::PortCredits { port: real, credits: g as u32 }).await?;
                for c in self.chunks_of(g) {
                    let last = off + c == len;
                    self.expect(&RefMsg::Data { port: q, first: false, last }, Some(&data[off..off + c]), "CreditStep/after grant").await?;
                    off += c;
                }
                if off < len {
                    self.expect_quiet(500, "CreditStep: sender must send exactly the granted amount").await?;
                    // Phase 3: grant the rest.
                    let rest = len - off;
                    self.peer_send(RefMsg::PortCredits { port: real, credits: rest as u32 }).await?;
                    for c in self.chunks_of(rest) {
                        let last = off + c == len;
                        self.expect(&RefMsg::Data { port: q, first: false, last }, Some(&data[off..off + c]), "CreditStep/rest").await?;
                        off += c;
                    }
                }
                let (tx, r) = match sim::within(60, jh).await {
                    Ok(Ok(x)) => x,
                    _ => return err("C09/api-reaction", "CreditStep: send did not complete after credits were granted"),
                };
                if let Err(e) = r {
                    return err("C09/api-reaction", format!("CreditStep: send failed: {e}"));
                }
                self.ports[pi].tx = Some(tx);
                // Return the initial window, too.
                self.grant(pi, rb as u64).await?;
            }
            Act::RealCloseRx { port } => {
                let Some(pi) = self.pick(*port, |p| p.rx.is_some() && !p.real_rx_closed) else { return Ok(false) };
                self.ports[pi].rx.as_mut().unwrap().close().await;
                self.ports[pi].real_rx_closed = true;
                let q = self.ports[pi].peer;
                self.expect(&RefMsg::ReceiveClose { port: q }, None, "RealCloseRx").await?;
            }
            Act::PeerReceiveClose { port } => {
                let Some(pi) = self.pick(*port, |p| p.tx.is_some() && !p.peer_recv_closed && !p.peer_recv_finished) else {
                    return Ok(false);
                };
                let real = self.ports[pi].real;
                let closed = self.ports[pi].tx.as_ref().unwrap().closed();
                self.peer_send(RefMsg::ReceiveClose { port: real }).await?;
                self.ports[pi].peer_recv_closed = true;
                if sim::within(60, closed).await.is_err() {
                    return err("C09/api-reaction", "ReceiveClose did not resolve Sender::closed()");
                }
                match self.ports[pi].tx.as_mut().unwrap().send(Bytes::from_static(b"x")).await {
                    Err(chmux::SendError::Closed { gracefully: true }) => {}
                    other => return err("C09/api-reaction", format!("send after ReceiveClose gave {other:?}, expected Closed{{gracefully: true}}")),
                }
            }
            Act::PeerReceiveFinish { port } => {
                let Some(pi) = self.pick(*port, |p| p.tx.is_some() && !p.peer_recv_finished) else { return Ok(false) };
                let real = self.ports[pi].real;
                self.peer_send(RefMsg::ReceiveFinish { port: real }).await?;
                self.ports[pi].peer_recv_finished = true;
                let closed = self.ports[pi].tx.as_ref().unwrap().closed();
                if sim::within(60, closed).await.is_err() {
                    return err("C09/api-reaction", "ReceiveFinish did not resolve Sender::closed()");
                }
                let was_closed = self.ports[pi].peer_recv_closed;
                match self.ports[pi].tx.as_mut().unwrap().send(Bytes::from_static(b"x")).await {
                    Err(chmux::SendError::Closed { gracefully: false }) if !was_closed => {}
                    Err(chmux::SendError::Closed { .. }) if was_closed => {}
                    other => return err("C09/api-reaction", format!("send after ReceiveFinish gave {other:?}, expected Closed{{gracefully: false}}")),
                }
            }
            Act::PeerSendFinish { port } => {
                let Some(pi) = self.pick(*port, |p| p.rx.is_some() && !p.peer_send_finished) else { return Ok(false) };
                let real = self.ports[pi].real;
                self.peer_send(RefMsg::SendFinish { port: real }).await?;
                self.ports[pi].peer_send_finished = true;
                match sim::within(60, self.ports[pi].rx.as_mut().unwrap().recv_any()).await {
                    Ok(Ok(None)) => {}
                    other => return err("C09/api-reaction", format!("SendFinish not seen as end of stream: {:?}", other.map(|r| r.map(|o| o.map(|_| ()))))),
                }
            }
            Act::RealDropTx { port } => {
                let Some(pi) = self.pick(*port, |p| p.tx.is_some()) else { return Ok(false) };
                let q = self.ports[pi].peer;
                self.ports[pi].tx = None;
                self.expect(&RefMsg::SendFinish { port: q }, None, "RealDropTx").await?;
            }
            Act::RealDropRx { port } => {
                let Some(pi) = self.pick(*port, |p| p.rx.is_some()) else { return Ok(false) };
                let q = self.ports[pi].peer;
                self.ports[pi].rx = None;
                self.expect(&RefMsg::ReceiveFinish { port: q }, None, "RealDropRx").await?;
            }
            Act::Idle { n } => {
                let t = self.peer.cfg.timeout_ms;
                if t == 0 || t > 120_000 {
                    return Ok(false);
                }
                let before = self.peer.pings_seen;
                // The real endpoint must ping every t/2 while idle. Keep it alive from our side.
                let span = (*n as u64) * (t / 2).max(1);
                let t0 = tokio::time::Instant::now();
                loop {
                    let left = span.saturating_sub(t0.elapsed().as_millis() as u64);
                    match self.peer.next_significant(left.min(20_000) + 1).await {
                        Err(PeerErr::Timeout) => {}
                        Ok(rx) => return err("C09/unexpected-frame", format!("Idle: unexpected {:?}", rx.msg)),
                        Err(PeerErr::Closed(e)) => return err("C09/connection-ended", format!("Idle: {e}")),
                        Err(PeerErr::Bad(e)) => return err("C09/bad-encoding", format!("Idle: {e}")),
                    }
                    self.peer_send(RefMsg::Ping).await?;
                    if t0.elapsed().as_millis() as u64 >= span + 5 {
                        break;
                    }
                }
                let got = self.peer.pings_seen - before;
                if t >= 2 && (got as u64) < *n as u64 {
                    return err("C09/missing-ping", format!("idle for {n} ping intervals of {} ms but only {got} Ping frames arrived", t / 2));
                }
                if got > 0 {
                    self.tuples.insert("real->ref Ping".into());
                }
            }
        }
        // Let the real endpoint process everything the peer sent (no virtual-time cost beyond 1 ms).
        tokio::time::sleep(std::time::Duration::from_millis(1)).await;
        self.absorb_credits()?;
        Ok(true)
    }

    async fn shutdown(&mut self, run: tokio::task::JoinHandle<crate::engine::gen::MuxResult>) -> R<()> {
        // Drop everything on the real side.
        let mut want: Vec<RefMsg> = Vec::new();
        for p in &mut self.ports {
            if p.tx.take().is_some() {
                want.push(RefMsg::SendFinish { port: p.peer });
            }
            if p.rx.take().is_some() {
                want.push(RefMsg::ReceiveFinish { port: p.peer });
            }
        }
        if self.client.take().is_some() {
            want.push(RefMsg::ClientFinish);
        }
        if self.listener.take().is_some() {
            want.push(RefMsg::ListenerFinish);
        }
        while !want.is_empty() {
            let rx = match self.peer.next_significant(WAIT_MS).await {
                Ok(rx) => rx,
                Err(e) => return err("C09/missing-frame", format!("shutdown: still expecting {want:?}, got {e:?}")),
            };
            match want.iter().position(|w| w.encode()[..] == rx.raw[..]) {
                Some(i) => {
                    let m = want.remove(i);
                    self.tuple("real->ref", &m);
                }
                None => return err("C09/wrong-bytes", format!("shutdown: unexpected {:?} ({:?}), still expecting {want:?}", rx.msg, &rx.raw[..])),
            }
        }
        // Peer finishes its side.
        let ports: Vec<(u32, bool, bool)> = self.ports.iter().map(|p| (p.real, p.peer_send_finished, p.peer_recv_finished)).collect();
        for (real, sf, rf) in ports {
            if !sf {
                self.peer_send(RefMsg::SendFinish { port: real }).await?;
            }
            if !rf {
                self.peer_send(RefMsg::ReceiveFinish { port: real }).await?;
            }
        }
        self.peer_send(RefMsg::ClientFinish).await?;
        self.peer_send(RefMsg::ListenerFinish).await?;
        self.expect(&RefMsg::Goodbye, None, "shutdown: everything dropped on both sides").await?;
        self.peer_send(RefMsg::Goodbye).await?;
        match sim::within(120, run).await {
            Ok(Ok(Ok(()))) => Ok(()),
            other => err("C09/api-reaction", format!("orderly shutdown conversation did not end run() with Ok: {other:?}")),
        }
    }
}

pub struct ConvResult {
    pub fail: Option<(String, String)>,
    pub tuples: std::collections::BTreeSet<String>,
    pub executed: u32,
    pub skipped: u32,
    pub frames: u64,
    pub log: Vec<String>,
}

/// Establishes the connection between a real endpoint and the reference peer.
pub async fn setup(real: &GCfg, peer_cfg: &RefCfg, peer_version: u8) -> Result<(SimLink, Conv, tokio::task::JoinHandle<crate::engine::gen::MuxResult>), (String, String)> {
    let (link, ea, eb) = SimLink::plain(8);
    let mut peer = RefPeer::new(eb, peer_cfg.clone(), peer_version);
    let (mux_res, hs) = tokio::join!(ChMux::new(real.to_cfg(), ea.sink, ea.stream), peer.handshake());
    hs.map_err(|e| ("setup/handshake".to_string(), e))?;
    let (mux, client, listener) = mux_res.map_err(|e| ("setup/handshake".to_string(), e.to_string()))?;
    let run = spawn_actor(mux.run());
    let conv = Conv {
        real_rb: real.receive_buffer as u64,
        real_cs: real.chunk_size as u64,
        peer,
        client: Some(client),
        listener: Some(listener),
        ports: Vec::new(),
        used_peer_ports: Default::default(),
        tuples: Default::default(),
        skipped: 0,
        executed: 0,
    };
    Ok((link, conv, run))
}

pub async fn converse(case: &Case) -> ConvResult {
    let (link, ea, eb) = SimLink::plain(8);
    let mut peer = RefPeer::new(eb, case.peer.clone(), case.peer_version);
    let cfg = case.real.to_cfg();
    let mux_fut = ChMux::new(cfg, ea.sink, ea.stream);
    let (mux_res, hs) = tokio::join!(mux_fut, peer.handshake());
    let mut res = ConvResult { fail: None, tuples: Default::default(), executed: 0, skipped: 0, frames: 0, log: vec![] };
    let frames = match hs {
        Ok(f) => f,
        Err(e) => {
            res.fail = Some(("C09/handshake".into(), e));
            return res;
        }
    };
    let (mux, client, listener) = match mux_res {
        Ok(x) => x,
        Err(e) => {
            res.fail = Some(("C09/handshake".into(), format!("real endpoint refused reference handshake {:?} v{}: {e}", case.peer, case.peer_version)));
            return res;
        }
    };
    // Handshake bytes: Reset, then Hello with the exact layout.
    let want_hello = RefMsg::Hello {
        version: 3,
        cfg: RefCfg {
            timeout_ms: case.real.timeout_s.map(|s| s as u64 * 1000).unwrap_or(0),
            chunk_size: case.real.chunk_size,
            receive_buffer: case.real.receive_buffer,
            connect_queue: case.real.connect_queue,
        },
    };
    let want = vec![RefMsg::Reset.encode(), want_hello.encode()];
    let got: Vec<Vec<u8>> = frames.iter().map(|f| f.to_vec()).collect();
    if got != want {
        res.fail = Some(("C09/handshake-bytes".into(), format!("handshake frames {got:?}, documented layout requires {want:?}")));
        return res;
    }
    let run = spawn_actor(mux.run());
    let mut conv = Conv {
        real_rb: case.real.receive_buffer as u64,
        real_cs: case.real.chunk_size as u64,
        peer,
        client: Some(client),
        listener: Some(listener),
        ports: Vec::new(),
        used_peer_ports: Default::default(),
        tuples: Default::default(),
        skipped: 0,
        executed: 0,
    };
    conv.tuples.insert(format!("real->ref Hello timeout={}", case.real.timeout_s.is_some()));
    conv.tuples.insert(format!("ref->real Hello v{} timeout={}", case.peer_version, case.peer.timeout_ms != 0));
    let mut fail = None;
    for a in &case.acts {
        match conv.act(a).await {
            Ok(true) => conv.executed += 1,
            Ok(false) => conv.skipped += 1,
            Err(e) => {
                fail = Some((e.0, format!("{} [act {a:?}]", e.1)));
                break;
            }
        }
    }
    if fail.is_none() {
        if let Err(e) = conv.expect_quiet(10, "end of script").await {
            fail = Some(e);
        }
    }
    if fail.is_none() && case.shutdown {
        if let Err(e) = conv.shutdown(run).await {
            fail = Some(e);
        }
    }
    res.fail = fail;
    res.tuples = conv.tuples.clone();
    res.executed = conv.executed;
    res.skipped = conv.skipped;
    res.frames = link.tap_len() as u64 / 2;
    res.log = conv.peer.log.clone();
    res
}

pub fn run_case(case: &Case) -> Outcome {
    let tape = Tape::new(vec![]);
    let res = sim::run_sim(0, &tape, 0, converse(case));
    let mut out = Outcome::default();
    out.frames = res.frames;
    if let Some((sig, msg)) = res.fail {
        let tail: Vec<String> = res.log.iter().rev().take(6).rev().cloned().collect();
        out.fail(sig, format!("{msg}; last wire events: {tail:?}"));
    }
    for t in &res.tuples {
        out.class(t.clone());
    }
    out.nontrivial = res.executed >= 3 && res.tuples.len() >= 6;
    out
}

/// Hand-written golden vectors: (message, bytes) pairs of the published layout.
pub fn golden() -> Vec<(RefMsg, Vec<u8>)> {
    vec![
        (RefMsg::Reset, vec![1]),
        (
            RefMsg::Hello { version: 3, cfg: RefCfg { timeout_ms: 60_000, chunk_size: 16_384, receive_buffer: 524_288, connect_queue: 128 } },
            vec![2, b'C', b'H', b'M', b'U', b'X', 0, 3, 0x60, 0xEA, 0, 0, 0, 0, 0, 0, 0, 0x40, 0, 0, 0, 0, 8, 0, 128, 0],
        ),
        (RefMsg::Ping, vec![3]),
        (RefMsg::OpenPort { client_port: 0x01020304, wait: true, id: Some(0xAABBCCDD) }, vec![4, 4, 3, 2, 1, 3, 0xDD, 0xCC, 0xBB, 0xAA]),
        (RefMsg::OpenPort { client_port: 5, wait: false, id: None }, vec![4, 5, 0, 0, 0, 0]),
        (RefMsg::OpenPort { client_port: 5, wait: true, id: None }, vec![4, 5, 0, 0, 0, 1]),
        (RefMsg::PortOpened { client_port: 1, server_port: 0xFFFFFFFF }, vec![5, 1, 0, 0, 0, 255, 255, 255, 255]),
        (RefMsg::Rejected { client_port: 7, no_ports: true }, vec![6, 7, 0, 0, 0, 1]),
        (RefMsg::Rejected { client_port: 7, no_ports: false }, vec![6, 7, 0, 0, 0, 0]),
        (RefMsg::Data { port: 9, first: true, last: false }, vec![7, 9, 0, 0, 0, 1]),
        (RefMsg::Data { port: 9, first: false, last: true }, vec![7, 9, 0, 0, 0, 2]),
        (RefMsg::Data { port: 9, first: true, last: true }, vec![7, 9, 0, 0, 0, 3]),
        (RefMsg::Data { port: 9, first: false, last: false }, vec![7, 9, 0, 0, 0, 0]),
        (
            RefMsg::PortData { port: 2, first: true, last: true, wait: false, ports: vec![10, 11], ids: Some(vec![20, 21]) },
            vec![8, 2, 0, 0, 0, 0b1011, 10, 0, 0, 0, 20, 0, 0, 0, 11, 0, 0, 0, 21, 0, 0, 0],
        ),
        (
            RefMsg::PortData { port: 2, first: false, last: false, wait: true, ports: vec![10], ids: None },
            vec![8, 2, 0, 0, 0, 0b0100, 10, 0, 0, 0],
        ),
        (RefMsg::PortCredits { port: 3, credits: 0x00010000 }, vec![9, 3, 0, 0, 0, 0, 0, 1, 0]),
        (RefMsg::SendFinish { port: 4 }, vec![10, 4, 0, 0, 0]),
        (RefMsg::ReceiveClose { port: 4 }, vec![11, 4, 0, 0, 0]),
        (RefMsg::ReceiveFinish { port: 4 }, vec![12, 4, 0, 0, 0]),
        (RefMsg::ClientFinish, vec![13]),
        (RefMsg::ListenerFinish, vec![14]),
        (RefMsg::Goodbye, vec![15]),
    ]
}

#[derive(Clone, Debug, Serialize, Deserialize)]
pub struct GoldenCase {
    pub idx: usize,
}

/// Golden vectors pin the reference codec itself (so a slip in the reference cannot hide one in
/// the implementation) and Connect::io framing is checked on a duplex stream.
pub fn run_golden(c: &GoldenCase) -> Outcome {
    let mut out = Outcome::default();
    let g = golden();
    let (m, b) = &g[c.idx];
    if &m.encode() != b {
        out.fail("C09/golden-ref-encode", format!("reference encoder gives {:?} for {m:?}, golden {:?}", m.encode(), b));
    }
    match RefMsg::decode(b) {
        Ok(d) if &d == m => {}
        other => out.fail("C09/golden-ref-decode", format!("reference decoder gives {other:?} for golden {b:?}")),
    }
    out.class(format!("golden {}", m.kind()));
    out.nontrivial = true;
    out
}

/// Connect::io framing: every frame is preceded by its length as a 4-byte little-endian integer.



#[derive(Clone, Debug, Serialize, Deserialize)]
pub struct IoCase {
    pub real: GCfg,
    pub peer: RefCfg,
    /// Second real endpoint for the real<->real conversation over a byte stream.
    pub other: GCfg,
    /// Number of channel halves sent in one value (port batch over the stream transport).
    pub halves: u8,
    pub msg_len: u16,
}

type R2 = Result<(), (String, String)>;

/// Reference-framed handshake against a real endpoint on a byte stream.
pub async fn io_ref_handshake(case: &IoCase) -> R2 {
    use tokio::io::{AsyncReadExt, AsyncWriteExt};
    let (a, mut b) = tokio::io::duplex(1 << 16);
    let (ar, aw) = tokio::io::split(a);
    let cfg = case.real.to_cfg();
    type Tx = remoc::rch::base::Sender<u32>;
    type Rxx = remoc::rch::base::Receiver<u32>;
    let conn = spawn_actor(async move {
        remoc::Connect::io::<_, _, u32, u32, remoc::codec::Default>(cfg, ar, aw).await.map(|(c, tx, rx): (_, Tx, Rxx)| (spawn_actor(c), tx, rx)).map_err(|e| e.to_string())
    });
    async fn write_frame(b: &mut tokio::io::DuplexStream, f: &[u8]) -> std::io::Result<()> {
        b.write_all(&(f.len() as u32).to_le_bytes()).await?;
        b.write_all(f).await?;
        b.flush().await
    }
    async fn read_frame(b: &mut tokio::io::DuplexStream) -> std::io::Result<Vec<u8>> {
        let mut l = [0u8; 4];
        b.read_exact(&mut l).await?;
        let n = u32::from_le_bytes(l) as usize;
        if n > 1 << 20 {
            return Err(std::io::Error::new(std::io::ErrorKind::InvalidData, format!("length prefix {n} implausible")));
        }
        let mut v = vec![0u8; n];
        b.read_exact(&mut v).await?;
        Ok(v)
    }
    let res: R2 = async {
        let io = |e: std::io::Error| ("C09/io-framing".to_string(), format!("stream framing: {e}"));
        let to = || ("C09/io-framing".to_string(), "no frame from real endpoint".to_string());
        write_frame(&mut b, &RefMsg::Reset.encode()).await.map_err(io)?;
        write_frame(&mut b, &RefMsg::Hello { version: 3, cfg: case.peer.clone() }.encode()).await.map_err(io)?;
        let f1 = sim::within(60, read_frame(&mut b)).await.map_err(|_| to())?.map_err(io)?;
        let f2 = sim::within(60, read_frame(&mut b)).await.map_err(|_| to())?.map_err(io)?;
        if f1 != RefMsg::Reset.encode() {
            return err("C09/io-framing", format!("first framed message {f1:?} is not Reset"));
        }
        match RefMsg::decode(&f2) {
            Ok(RefMsg::Hello { version: 3, .. }) => {}
            other => return err("C09/io-framing", format!("second framed message {f2:?} is not Hello v3: {other:?}")),
        }
        // The real side now opens its base channel: an OpenPort request must arrive, framed.
        let f3 = sim::within(60, read_frame(&mut b)).await.map_err(|_| to())?.map_err(io)?;
        match RefMsg::decode(&f3) {
            Ok(RefMsg::OpenPort { .. }) => Ok(()),
            other => err("C09/io-framing", format!("third framed message {f3:?} is not OpenPort: {other:?}")),
        }
    }
    .await;
    drop(b);
    let conn_res = sim::within(60, conn).await;
    match res {
        Err((sig, msg)) => {
            let why = match conn_res {
                Ok(Ok(Err(e))) => format!("; real endpoint reported: {e}"),
                _ => String::new(),
            };
            let sig = if why.contains("frame size too big") { "C09/io-hello-exceeds-max-frame".to_string() } else { sig };
            Err((sig, format!("{msg}{why} (real chunk_size {}, max_frame_length {})", case.real.chunk_size, 16 + case.real.chunk_size)))
        }
        Ok(()) => Ok(()),
    }
}

/// Two real endpoints over a byte stream (Connect::io on both sides): they must interoperate for
/// every valid configuration pair, including values carrying several channel halves.
pub async fn io_real_real(case: &IoCase) -> R2 {
    use remoc::rch::{base, oneshot};
    type V = (Vec<u8>, Vec<oneshot::Sender<u8>>);
    let (a, b) = tokio::io::duplex(1 << 16);
    let (ar, aw) = tokio::io::split(a);
    let (br, bw) = tokio::io::split(b);
    let cfg_a = case.real.to_cfg();
    let cfg_b = case.other.to_cfg();
    let fa = remoc::Connect::io::<_, _, V, V, remoc::codec::Default>(cfg_a, ar, aw);
    let fb = remoc::Connect::io::<_, _, V, V, remoc::codec::Default>(cfg_b, br, bw);
    let (ra, rb) = match sim::within(600, async { tokio::join!(fa, fb) }).await {
        Ok(x) => x,
        Err(()) => return err("C09/io-connect", "Connect::io did not complete on both sides"),
    };
    let (ca, mut tx_a, _rx_a): (_, base::Sender<V>, base::Receiver<V>) = match ra {
        Ok(x) => x,
        Err(e) => return err("C09/io-connect", format!("endpoint A (chunk_size {}) failed to connect over a byte stream: {e}", case.real.chunk_size)),
    };
    let (cb, _tx_b, mut rx_b): (_, base::Sender<V>, base::Receiver<V>) = match rb {
        Ok(x) => x,
        Err(e) => return err("C09/io-connect", format!("endpoint B (chunk_size {}) failed to connect over a byte stream: {e}", case.other.chunk_size)),
    };
    let ja = spawn_actor(ca);
    let jb = spawn_actor(cb);
    let mut rxs = Vec::new();
    let mut txs = Vec::new();
    for _ in 0..case.halves {
        let (t, r) = oneshot::channel::<u8, remoc::codec::Default>();
        txs.push(t);
        rxs.push(r);
    }
    let data: Vec<u8> = payload(1, case.msg_len as usize).to_vec();
    let d2 = data.clone();
    let send = spawn_actor(async move {
        let r = tx_a.send((d2, txs)).await.map_err(|e| e.to_string());
        (tx_a, r)
    });
    let got = match sim::within(600, rx_b.recv()).await {
        Ok(Ok(Some(v))) => v,
        Ok(other) => {
            let conn = match sim::within(5, ja).await { Ok(Ok(r)) => format!("{r:?}"), _ => "running".into() };
            let connb = match sim::within(5, jb).await { Ok(Ok(r)) => format!("{r:?}"), _ => "running".into() };
            return err(
                "C09/io-message",
                format!(
                    "value with {} channel halves and {} bytes not received over the byte stream: {:?}; dispatcher A: {conn}; dispatcher B: {connb} (B chunk_size {}, max_frame_length {})",
                    case.halves, case.msg_len, other.map(|o| o.map(|_| ())), case.other.chunk_size, 16 + case.other.chunk_size
                ),
            );
        }
        Err(()) => return err("C09/io-message", "value not received within 600 virtual s"),
    };
    if got.0 != data || got.1.len() != case.halves as usize {
        return err("C09/io-message", "value received over the byte stream differs from the value sent");
    }
    for (k, t) in got.1.into_iter().enumerate() {
        if t.send(k as u8).is_err() {
            return err("C09/io-message", format!("half {k} not connected"));
        }
    }
    for (k, r) in rxs.into_iter().enumerate() {
        match sim::within(600, r).await {
            Ok(Ok(v)) if v == k as u8 => {}
            other => return err("C09/io-message", format!("half {k}: expected {k}, got {other:?}")),
        }
    }
    let _ = sim::within(60, send).await;
    Ok(())
}

pub fn run_io(case: &IoCase) -> Outcome {
    let tape = Tape::new(vec![]);
    let mut out = Outcome::default();
    if let Err((s, m)) = sim::run_sim(0, &tape, 0, io_ref_handshake(case)) {
        out.fail(s, m);
    }
    if let Err((s, m)) = sim::run_sim(0, &tape, 0, io_real_real(case)) {
        out.fail(s, m);
    }
    out.class("Connect::io framing");
    if case.halves as u32 * 4 > case.other.chunk_size {
        out.class("io: port batch spans frames");
    }
    out.nontrivial = true;
    out
}

fn io_cfg() -> BoxedStrategy<GCfg> {
    (prop_oneof![4u32..=64, 4u32..=12, Just(4u32), Just(16u32)], prop_oneof![Just(64u32), 16u32..=256]).prop_map(|(chunk_size, receive_buffer)| GCfg {
        chunk_size,
        receive_buffer,
        max_data_size: 1 << 20,
        shared_q: 2,
        tsend_q: 2,
        trecv_q: 2,
        connect_queue: 4,
        max_ports: 1000,
        max_received_ports: 64,
        timeout_s: Some(60),
    }).boxed()
}

pub fn io_strategy() -> BoxedStrategy<IoCase> {
    (io_cfg(), peer_cfg(), io_cfg(), prop_oneof![0u8..=12, Just(0u8), Just(4u8)], 0u16..=200)
        .prop_map(|(real, peer, other, halves, msg_len)| IoCase { real, peer, other, halves, msg_len })
        .boxed()
}

pub const RULE: &str = "cases = (real Cfg, reference peer's exchanged cfg incl. boundary values, peer version 2/3/4, conversation script over 15 action kinds: real/peer connect with all wait/id/no_ports variants, whole and chunked sends in both directions with every first/last combination, port batches with/without ids and split frames, credit stepping, close/finish in both directions, idle pings, orderly shutdown); oracles = every frame from the real endpoint equals the reference encoding of the message prescribed for the action (byte for byte, Data followed by its payload frame, no ids to a v2 peer), every reference-encoded message causes the documented API reaction, hand-written golden vectors pin the reference codec, Connect::io framing = 4-byte little-endian length prefix; non-trivial = at least 3 executed actions and at least 6 distinct (direction, kind, flags) tuples observed; distinct = distinct case hash";

pub fn main(tier: Tier, seed: u64) -> Report {
    let mut rep = Report::new("C09", tier, seed);
    rep.rule = RULE.into();
    rep.assumptions = vec![
        "'independent of the build' cannot be tested against other binaries; the frozen reference codec (written from the documented layout, pinned by golden vectors) stands in for another build".into(),
        "conversations are sequential (one action at a time) so that the expected frame order is determined".into(),
    ];
    let g: Vec<GoldenCase> = (0..golden().len()).map(|idx| GoldenCase { idx }).collect();
    runner::run_cases(&mut rep, "golden", g, run_golden);
    let regress: Vec<Case> = runner::load_regress::<Case>("C09", "conv").into_iter().map(|(_, c)| c).collect();
    if !regress.is_empty() {
        runner::run_cases(&mut rep, "regress", regress, run_case);
    }
    runner::run_generated(&mut rep, "conv", tier.pick(40_000, 150_000), || strategy(tier), run_case);
    runner::run_generated(
        &mut rep,
        "io",
        tier.pick(4000, 10_000),
        io_strategy,
        run_io,
    );
    let tuples: Vec<String> = rep.classes.keys().cloned().collect();
    rep.extra.insert("distinct_wire_tuples".into(), serde_json::json!(tuples.len()));
    rep
}

pub fn replay(part: &str, case: serde_json::Value) -> (Option<runner::Failure>, u32, u32) {
    match part {
        "golden" => {
            let c: GoldenCase = serde_json::from_value(case).expect("golden case");
            let (f, h) = runner::replay_case(&c, run_golden, 1);
            (f, h, 1)
        }
        "io" => {
            let c: IoCase = serde_json::from_value(case).expect("io case");
            let (f, h) = runner::replay_case(&c, run_io, 3);
            (f, h, 3)
        }
        _ => {
            let c: Case = serde_json::from_value(case).expect("replay case does not parse as C09 case");
            let (f, h) = runner::replay_case(&c, run_case, 3);
            (f, h, 3)
        }
    }
}
