//! C08, byte level: one entry function for coverage-guided fuzzing (libFuzzer target
//! `fuzz/fuzz_targets/c08_frames.rs`) and for in-process replay of saved inputs (`c08` binary).
//!
//! Input layout: byte 0 selects the real endpoint's configuration, byte 1 the behaviour of the
//! local users, the rest is a sequence of frames `[len: u8][len bytes]` which the harness, acting
//! as the remote endpoint, puts on the transport verbatim after a valid handshake. Whatever the
//! bytes are, the real endpoint must not panic, must not create tasks without bound, and — once
//! the transport ends — its dispatcher and every local user must finish in bounded (virtual) time.

use bytes::Bytes;
use std::time::Duration;

use crate::engine::{
    gen::GCfg,
    link::SimLink,
    peer::RefPeer,
    refcodec::{RefCfg, RefMsg},
};
use remoc::chmux::{ChMux, Received};

fn cfg_of(sel: u8) -> GCfg {
    let (chunk_size, receive_buffer) = [(4u32, 4u32), (4, 16), (8, 64), (16, 16), (16, 256), (64, 64), (64, 1024), (9, 21)][(sel & 7) as usize];
    GCfg {
        chunk_size,
        receive_buffer,
        max_data_size: if sel & 8 != 0 { 64 } else { 1 << 20 },
        shared_q: 1 + ((sel >> 4) & 1) as usize,
        tsend_q: 1,
        trecv_q: 1 + ((sel >> 5) & 1) as usize,
        connect_queue: 1 + ((sel >> 6) & 1) as u16,
        max_ports: if sel & 128 != 0 { 3 } else { 1000 },
        max_received_ports: 16,
        timeout_s: None,
    }
}

/// Splits the frame section of an input.
pub fn frames_of(data: &[u8]) -> Vec<&[u8]> {
    let mut out = Vec::new();
    let mut rest = data.get(2..).unwrap_or(&[]);
    while let Some((&len, tail)) = rest.split_first() {
        let n = (len as usize).min(tail.len());
        out.push(&tail[..n]);
        rest = &tail[n..];
    }
    out
}

pub fn encode_input(sel: u8, behaviour: u8, frames: &[Vec<u8>]) -> Vec<u8> {
    let mut v = vec![sel, behaviour];
    for f in frames {
        let f = &f[..f.len().min(255)];
        v.push(f.len() as u8);
        v.extend_from_slice(f);
    }
    v
}

/// Valid and nearly valid conversations as starting corpus.
pub fn seed_corpus() -> Vec<Vec<u8>> {
    let m = |m: RefMsg| m.encode();
    let mut seeds = Vec::new();
    for (sel, beh) in [(2u8, 0u8), (2, 1), (4, 3), (0, 2), (7, 7), (0x8a, 5)] {
        // The peer opens a port, sends a message in two chunks, finishes.
        seeds.push(encode_input(
            sel,
            beh,
            &[
                m(RefMsg::OpenPort { client_port: 7, wait: true, id: Some(1) }),
                m(RefMsg::Data { port: SYM, first: true, last: false }),
                vec![1, 2, 3, 4],
                m(RefMsg::Data { port: SYM, first: false, last: true }),
                vec![5, 6],
                m(RefMsg::SendFinish { port: SYM }),
                m(RefMsg::ReceiveFinish { port: SYM }),
            ],
        ));
        // Answers to the local client's connect, credits, a port batch, pings.
        seeds.push(encode_input(
            sel,
            beh,
            &[
                m(RefMsg::Ping),
                m(RefMsg::PortOpened { client_port: SYM, server_port: 11 }),
                m(RefMsg::PortCredits { port: SYM, credits: 8 }),
                m(RefMsg::PortData { port: SYM, first: true, last: true, wait: false, ports: vec![21, 22], ids: Some(vec![5, 6]) }),
                m(RefMsg::ReceiveClose { port: SYM }),
                m(RefMsg::Rejected { client_port: SYM + 1, no_ports: true }),
            ],
        ));
        seeds.push(encode_input(
            sel,
            beh,
            &[
                m(RefMsg::OpenPort { client_port: 1, wait: false, id: None }),
                m(RefMsg::OpenPort { client_port: 2, wait: false, id: Some(9) }),
                m(RefMsg::PortData { port: SYM + 1, first: true, last: false, wait: true, ports: vec![31], ids: None }),
                m(RefMsg::ClientFinish),
                m(RefMsg::ListenerFinish),
                m(RefMsg::Goodbye),
            ],
        ));
        seeds.push(encode_input(sel, beh, &[m(RefMsg::Reset), m(RefMsg::Hello { version: 3, cfg: RefCfg { timeout_ms: 0, chunk_size: 16, receive_buffer: 64, connect_queue: 2 } })]));
    }
    seeds.push(vec![]);
    seeds
}

/// Statistics of one run (for evidence / non-triviality).
#[derive(Default, Debug, Clone)]
pub struct FuzzOutcome {
    pub frames: usize,
    pub terminated_by_input: bool,
    pub ports_opened: usize,
    pub ports_learned: usize,
    pub fail: Option<(String, String)>,
}

/// Runs one input. A returned failure is a violation of C08; panics anywhere are left to the
/// caller (libFuzzer aborts on them, the in-process replay records them through the panic hook).
pub fn run_input(data: &[u8]) -> FuzzOutcome {
    let rt = tokio::runtime::Builder::new_current_thread().enable_time().start_paused(true).build().unwrap();
    rt.block_on(async move { tokio::time::timeout(Duration::from_secs(10_000_000), run_async(data)).await.unwrap_or_default() })
}

async fn run_async(data: &[u8]) -> FuzzOutcome {
    let mut out = FuzzOutcome::default();
    let sel = data.first().copied().unwrap_or(0);
    let beh = data.get(1).copied().unwrap_or(0);
    let real = cfg_of(sel);
    let (_link, ea, eb) = SimLink::plain(8);
    let peer_cfg = RefCfg { timeout_ms: 0, chunk_size: 16 + (beh as u32 & 0x30), receive_buffer: 64, connect_queue: 2 };
    let mut peer = RefPeer::new(eb, peer_cfg, 3);
    let (mux_res, hs) = tokio::join!(ChMux::new(real.to_cfg(), ea.sink, ea.stream), peer.handshake());
    if hs.is_err() {
        return out;
    }
    let Ok((mux, client, mut listener)) = mux_res else { return out };
    let run = tokio::spawn(mux.run());
    let tasks0 = tokio::runtime::Handle::current().metrics().num_alive_tasks();

    // Local users. Listener: accepts everything; accepted receivers are read (beh bit 0) or only
    // held (flow control must then stop the peer). Requests arriving over ports are accepted
    // (bit 1) or dropped. Client: one connect that is awaited (bit 2) or dropped.
    let read_ports = beh & 1 != 0;
    let accept_batches = beh & 2 != 0;
    let acceptor = tokio::spawn(async move {
        let mut held = Vec::new();
        let mut n = 0usize;
        loop {
            match listener.accept().await {
                Ok(Some((tx, mut rx))) => {
                    n += 1;
                    if read_ports {
                        held.push((
                            tx,
                            None,
                            Some(tokio::spawn(async move {
                                let mut kept = Vec::new();
                                loop {
                                    match rx.recv_any().await {
                                        Ok(Some(Received::Requests(reqs))) => {
                                            for r in reqs {
                                                if accept_batches {
                                                    if let Ok(p) = r.accept().await {
                                                        kept.push(p);
                                                    }
                                                }
                                            }
                                        }
                                        Ok(Some(Received::Chunks)) => while let Ok(Some(_)) = rx.recv_chunk().await {},
                                        Ok(Some(Received::Data(_))) => {}
                                        Ok(None) | Err(_) => break,
                                    }
                                }
                            })),
                        ));
                    } else {
                        // Held, never read: flow control has to stop the peer.
                        held.push((tx, Some(rx), None));
                    }
                }
                Ok(None) | Err(_) => break,
            }
        }
        (n, held)
    });
    let await_connect = beh & 4 != 0;
    let connector = tokio::spawn(async move {
        if await_connect {
            let r = client.connect().await;
            if let Ok((tx, mut rx)) = r {
                let _ = tx.closed().await;
                let _ = rx.recv_any().await;
            }
        } else {
            // A connect that is dropped after it has been sent.
            if let Ok(mut c) = client.connect_ext(None, false).await {
                c.sent().await;
                drop(c);
            }
            drop(client);
        }
    });

    // Feed the frames. The real endpoint draws its port numbers at random, so a frame that
    // decodes as a message may name them symbolically: a port field 0xFFFFFF00 + k stands for
    // the k-th port number learned from what the real endpoint has sent so far.
    let mut learned: Vec<u32> = Vec::new();
    // The local client's own request comes first.
    while let Ok(raw) = peer.next_raw(1).await {
        learn(&raw, &mut learned);
    }
    for f in frames_of(data) {
        out.frames += 1;
        let frame = substitute(f, &learned);
        if peer.send_raw(Bytes::from(frame)).await.is_err() {
            break;
        }
        // Drain what the real endpoint sends so that it never blocks on its transport.
        while let Ok(raw) = peer.next_raw(1).await {
            learn(&raw, &mut learned);
        }
        if run.is_finished() {
            out.terminated_by_input = true;
            break;
        }
    }
    tokio::time::sleep(Duration::from_millis(50)).await;
    while peer.next_raw(0).await.is_ok() {}
    out.ports_learned = learned.len();
    let tasks1 = tokio::runtime::Handle::current().metrics().num_alive_tasks();
    // One frame can carry chunk_size/4 <= 16 port requests, each of which owns a helper task
    // until it is answered, and an accepted port owns a reader task: tasks are bounded by a
    // constant per frame.
    if tasks1 > tasks0 + 32 + 24 * out.frames {
        out.fail = Some(("C08/fuzz/unbounded-tasks".into(), format!("{} frames created {} live tasks", out.frames, tasks1 - tasks0)));
        return out;
    }
    if run.is_finished() {
        out.terminated_by_input = true;
    }

    // End of transport: everything must finish.
    drop(peer);
    match tokio::time::timeout(Duration::from_secs(600), run).await {
        Ok(Ok(_)) => {}
        Ok(Err(e)) => {
            out.fail = Some(("C08/fuzz/dispatcher-panicked".into(), format!("{e}")));
            return out;
        }
        Err(_) => {
            out.fail = Some(("C08/fuzz/dispatcher-hangs".into(), "the dispatcher did not end within 600 virtual s after the transport had ended".into()));
            return out;
        }
    }
    match tokio::time::timeout(Duration::from_secs(600), acceptor).await {
        Ok(Ok((n, held))) => {
            out.ports_opened = n;
            for (tx, rx, reader) in held {
                drop(tx);
                drop(rx);
                if let Some(r) = reader {
                    if tokio::time::timeout(Duration::from_secs(600), r).await.is_err() {
                        out.fail = Some(("C08/fuzz/local-user-hangs".into(), "a receiver of an accepted port did not end after the connection had ended".into()));
                        return out;
                    }
                }
            }
        }
        Ok(Err(e)) => out.fail = Some(("C08/fuzz/local-user-panicked".into(), format!("{e}"))),
        Err(_) => out.fail = Some(("C08/fuzz/local-user-hangs".into(), "listener.accept() did not end after the connection had ended".into())),
    }
    if out.fail.is_none() {
        match tokio::time::timeout(Duration::from_secs(600), connector).await {
            Ok(Ok(())) => {}
            Ok(Err(e)) => out.fail = Some(("C08/fuzz/local-user-panicked".into(), format!("{e}"))),
            Err(_) => out.fail = Some(("C08/fuzz/local-user-hangs".into(), "a client connect / closed() did not end after the connection had ended".into())),
        }
    }
    out
}

/// Placeholder base for symbolic port numbers.
pub const SYM: u32 = 0xFFFF_FF00;

fn sym(v: u32, learned: &[u32]) -> u32 {
    if v >= SYM && !learned.is_empty() {
        learned[(v - SYM) as usize % learned.len()]
    } else {
        v
    }
}

fn substitute(f: &[u8], learned: &[u32]) -> Vec<u8> {
    if learned.is_empty() {
        return f.to_vec();
    }
    match RefMsg::decode(f) {
        Ok(RefMsg::Data { port, first, last }) => RefMsg::Data { port: sym(port, learned), first, last }.encode(),
        Ok(RefMsg::PortData { port, first, last, wait, ports, ids }) => RefMsg::PortData { port: sym(port, learned), first, last, wait, ports, ids }.encode(),
        Ok(RefMsg::PortCredits { port, credits }) => RefMsg::PortCredits { port: sym(port, learned), credits }.encode(),
        Ok(RefMsg::SendFinish { port }) => RefMsg::SendFinish { port: sym(port, learned) }.encode(),
        Ok(RefMsg::ReceiveClose { port }) => RefMsg::ReceiveClose { port: sym(port, learned) }.encode(),
        Ok(RefMsg::ReceiveFinish { port }) => RefMsg::ReceiveFinish { port: sym(port, learned) }.encode(),
        Ok(RefMsg::PortOpened { client_port, server_port }) => RefMsg::PortOpened { client_port: sym(client_port, learned), server_port }.encode(),
        Ok(RefMsg::Rejected { client_port, no_ports }) => RefMsg::Rejected { client_port: sym(client_port, learned), no_ports }.encode(),
        _ => f.to_vec(),
    }
}

fn learn(raw: &[u8], learned: &mut Vec<u32>) {
    let mut add = |p: u32| {
        if !learned.contains(&p) && learned.len() < 64 {
            learned.push(p);
        }
    };
    match RefMsg::decode(raw) {
        Ok(RefMsg::PortOpened { server_port, .. }) => add(server_port),
        Ok(RefMsg::OpenPort { client_port, .. }) => add(client_port),
        Ok(RefMsg::PortData { ports, .. }) => ports.into_iter().for_each(add),
        _ => {}
    }
}
