#![allow(clippy::type_complexity, clippy::too_many_arguments, dead_code, unused_imports)]
pub mod cli;
pub mod engine;
pub mod fuzz_c08;
