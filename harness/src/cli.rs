//! Command line driver shared by all check binaries.

use crate::engine::{self, runner::{Failure, Report, Tier}};

pub type MainFn = fn(Tier, u64) -> Report;
pub type ReplayFn = fn(&str, serde_json::Value) -> (Option<Failure>, u32, u32);

fn usage() -> ! {
    eprintln!("usage: <check> [--tier quick|thorough] [--replay <file>] [--verbose]");
    std::process::exit(2)
}

pub fn run(id: &'static str, main_fn: MainFn, replay_fn: ReplayFn) {
    let args: Vec<String> = std::env::args().skip(1).collect();
    let mut tier = match std::env::var("VERIF_TIER").ok().as_deref() {
        Some("thorough") => Tier::Thorough,
        _ => Tier::Quick,
    };
    let mut replay: Option<String> = None;
    let mut i = 0;
    while i < args.len() {
        match args[i].as_str() {
            "--tier" => {
                i += 1;
                tier = match args.get(i).map(|s| s.as_str()) {
                    Some("quick") => Tier::Quick,
                    Some("thorough") => Tier::Thorough,
                    _ => usage(),
                };
            }
            "--replay" => {
                i += 1;
                replay = Some(args.get(i).cloned().unwrap_or_else(|| usage()));
            }
            "--verbose" => engine::sim::set_verbose(true),
            // the property id may be passed as first argument for symmetry with ./check
            a if a == id => {}
            _ => usage(),
        }
        i += 1;
    }
    let seed: u64 = std::env::var("VERIF_SEED").ok().and_then(|s| s.parse::<i64>().ok()).map(|v| v as u64).unwrap_or(0);
    engine::sim::install_panic_hook();

    // Wall-clock watchdog: a run that takes too long is inconclusive, never a violation.
    let budget_s: u64 = std::env::var("VERIF_WATCHDOG_S")
        .ok()
        .and_then(|s| s.parse().ok())
        .unwrap_or(match tier {
            Tier::Quick => 900,
            Tier::Thorough => 6 * 3600,
        });
    std::thread::spawn(move || {
        std::thread::sleep(std::time::Duration::from_secs(budget_s));
        println!("INCONCLUSIVE property={id} watchdog after {budget_s}s");
        std::process::exit(2);
    });

    if let Some(path) = replay {
        let (part, case) = engine::runner::load_replay(&path);
        let (fail, hits, times) = replay_fn(&part, case);
        match fail {
            Some(f) => {
                let known = engine::runner::load_known();
                if let Some(k) = known.iter().find(|k| k.property == id && k.status == "known" && k.signature == f.sig) {
                    println!("KNOWN-FINDING: property={id} {} [{}]", k.what, f.sig);
                    println!("reproduced {hits}/{times}: {}", f.msg);
                    std::process::exit(0);
                }
                println!("VIOLATION property={id} replay={path}");
                println!("  signature: {}", f.sig);
                println!("  reproduced {hits}/{times}: {}", f.msg);
                std::process::exit(1);
            }
            None => {
                println!("replay of {path}: property {id} held ({times} runs)");
                std::process::exit(0);
            }
        }
    }

    let rep = main_fn(tier, seed);
    rep.write_evidence();
    println!(
        "{id} tier={} seed={seed} evaluations={} distinct_nontrivial={} inconclusive={} violations={} wall={:.1}s",
        tier.name(),
        rep.evaluations,
        rep.nontrivial.len(),
        rep.inconclusive,
        rep.violations.len(),
        rep.start.elapsed().as_secs_f64()
    );
    for (k, v) in &rep.classes {
        println!("  class {k}: {v}");
    }
    if std::env::var("VERIF_SPIN_STATS").is_ok() {
        println!("  spin-max {}", crate::engine::sim::spin_max());
    }
    std::process::exit(rep.exit_code());
}
