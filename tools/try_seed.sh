#!/bin/bash
# usage: tools/try_seed.sh <patch.diff> <Cnn> [<Cnn> ...]
# Applies a seeded change to /repo, runs the quick checks, reverts. Prints one line per check.
P=$(readlink -f "$1"); shift
cd /repo || exit 2
if ! git diff --quiet; then echo "REPO DIRTY - abort"; exit 2; fi
if ! git apply --check "$P" 2>/dev/null; then echo "PATCH DOES NOT APPLY: $P"; exit 3; fi
git apply "$P"
# Evidence of runs against a seeded (deliberately broken) tree goes to a scratch directory, never to
# /verif/evidence, which must always describe the unchanged tree.
export VERIF_EVIDENCE_DIR="${VERIF_EVIDENCE_DIR:-$(mktemp -d /tmp/seed-evidence.XXXXXX)}"
for c in "$@"; do
  OUT=$(cd /verif && VERIF_WATCHDOG_S=${VERIF_WATCHDOG_S:-600} ./check $c --tier ${TIER:-quick} 2>&1)
  RC=$?
  SIG=$(echo "$OUT" | grep -m1 "signature:" | sed 's/^ *//')
  echo "$c rc=$RC $SIG | $(echo "$OUT" | grep -E "tier=" | head -1 | cut -c1-120)"
done
git checkout -q -- .
case "$VERIF_EVIDENCE_DIR" in /tmp/seed-evidence.*) rm -rf "$VERIF_EVIDENCE_DIR";; esac
git status --short | grep -v '^??' | head -3
