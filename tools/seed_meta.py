#!/usr/bin/env python3
"""Writes seeded/<id>/meta.json from the table below (results of tools/try_seed.sh runs)."""
import json, os
T = {
 "C01-1": ("C01","chmux::Receiver::recv_any: a first chunk no longer resets the reassembly buffer when a reception is in progress","an incomplete multi-chunk message on the wire (send dropped between chunks, try_send Full after some chunks, abandoned ChunkSender) followed by another message","caught","C01 (C01/corrupt-or-foreign)"),
 "C01-2": ("C01","Sender::send: credits taken before awaiting queue space again (reverts the D2 repair in send)","shared send queue full while credits remain and a send cancelled exactly at that poll, repeatedly","caught","C01 (C01/send-stalled-after-cancel), C03 (C03/credit-leak)"),
 "C02-1": ("C02","Sender::connect: misplaced parenthesis, chunk size compared with a port count -> PortData frames up to 4x chunk_size","one connect() with more ports than chunk_size/4 while enough credits are available","caught","C02 (wire/chunk-size-exceeded-ports), C03"),
 "C02-2": ("C02","Sender::try_send: credits taken once after the chunk loop, so a Full in the middle returns credits for data already on the wire","try_send of a multi-chunk message with fewer free queue slots than chunks, retried against a non-consuming receiver","caught","C02 (wire/receive-buffer-exceeded), C01, C03"),
 "C03-1": ("C03","ChannelCreditReturner::return_flush moves the pending return future out before awaiting it: a cancelled receive drops the ReturnCredits event","event queue full when credits are returned and the next receive cancelled before the queue drains","caught","C03 (C03/probe-connect, pending-op) and C01 after receive-call cancellation was added to the receiver actors"),
 "C03-2": ("C03","Sender::connect reserves the event-queue slot before waiting for port credits","a connect() that has to wait for credits on a port whose receiver does not consume, shared_send_queue small","caught","C03 (C03/pending-op/with-stalled-port)"),
 "C06-1": ("C06","CreditUser::request upgrades the Weak to an Arc once outside the wait loop, so a waiter keeps its own notifier alive","a sender parked on credits at the moment the transport fails","caught","C06 (C06/op-hangs/port-send-stream)"),
 "C06-2": ("C06","send_task: ping fed but need_flush not set","a buffering transport (flush required) and an idle period longer than the connection timeout","caught","C06 idle part with flush-buffered SimLink (C06/idle-torn-down)"),
 "C07-1": ("C07","ReceiveFinish after ReceiveClose ignored in mux (remote_receiver_dropped only set if not closed before)","receiver close() and later drop","caught","C07 (C07/port-leaked)"),
 "C07-2": ("C07","Client::connect_ext: `let _ = credit` drops the connect-queue permit when connect_ext returns","more than connect_queue concurrent client connects while the remote listener is slow","caught","C10 (C10/dispatcher-error via wire monitor); not by C07 itself"),
 "C08-1": ("C08","OpenPort duplicate test uses the OpenPort-only set: a port named in PortData and again in OpenPort yields two Requests -> panic in mux","PortData naming port N then OpenPort with client_port N","caught","C08 (panic/.../mux.rs) after adding Evil::SamePortTwoWays and end-of-case draining"),
 "C08-2": ("C08","recv_any checks max_ports only on the final chunk of a port message","a multi-chunk PortData message that never ends, within credit","caught","C08 (C08/unbounded-port-requests) after adding Evil::EndlessPortData"),
 "C09-1": ("C09","PortData ids decided by own protocol version instead of the peer's: ids sent to a v2 peer","peer announces version 2 and the local side sends ports over a port","caught","C09 (C09/wrong-bytes)"),
 "C09-2": ("C09","Connect::io: write half gets the local max_frame_length","stream transport, local chunk_size smaller than the peer's, frame larger than the local limit","caught","C09 io part (C09/api-reaction / io-message)"),
 "C10-1": ("C10","impl Drop for Connect aborts the response task, releasing the request credit while unanswered","peer's connect_queue full of unanswered requests, one Connect dropped, another connect_ext","caught","C10 (C10/dispatcher-error)"),
 "C10-2": ("C10","PortNumber::drop wakes only the oldest waiter","max_ports exhausted, a cancelled port-waiting operation, a later waiter, then a release","caught","C10 (C10/unresolved)"),
 "C11-1": ("C11","base::Receiver::recv streamed branch: chunk received before queue space is awaited -> cancelled recv loses a chunk","item > max_data_size, deserialiser slower than the network, recv() dropped and restarted (mpsc close())","missed so far","needs the C04 streaming workload with cancelled receives (same root cause as C04-2)"),
 "C11-2": ("C11","CreditProvider::provide ignores credits once closed","forwarded port, final receiver close(), more data in flight than the forwarder has credits for","caught","C11 port part with forwarding hop (C11/closed-not-resolved)"),
 "C12-1": ("C12","mpsc Receiver::poll_recv returns Pending without waker when holding back a final error","a call pending when its reply channel gets a final error (connection drop)","caught","C12 (C12/call-hangs), C19"),
 "C12-2": ("C12","#[no_cancel] detection inverted in the macro","a #[no_cancel] &mut method with an await inside, caller drops the call future","caught","C19 (C19/not-cancelled); not by C12 (no two-step mutation in its methods)"),
 "C13-1": ("C13","ObservableVecDeque::remove emits Remove(i) also when the index is out of range","remove with an out-of-range index while a mirror exists","caught","C13 (C13/vec_deque/mirror-error), C14"),
 "C13-2": ("C13","HashMapSubscription::recv decrements the initial-element counter before awaiting","subscribe_incremental consumed by hand with a recv() future dropped while pending","missed so far","strengthening in progress: cancelled recv() in the hand consumer"),
 "C14-1": ("C14","vec_deque mirror: Remove index check > instead of >=","an event stream that does not fit the mirror's contents (take_initial before mirror)","missed so far","strengthening in progress: inapplicable-event part with a model of the mirror"),
 "C14-2": ("C14","VecSubscription::recv: premature end of the incremental initial stream reported as InitialComplete","remote incremental subscription with an element that fails to serialise","missed so far","strengthening in progress: elements with failing Serialize"),
 "C15-1": ("C15","watch Receiver::serialize takes the snapshot with borrow() and marks seen later","update between serialising the receiver and the first poll of its forwarding task, then no more updates","caught","C15 (C15/lost-update)"),
 "C15-2": ("C15","watch recv_impl treats every receive error as final","a value rejected on receive followed by a valid value","missed so far","strengthening in progress: values with failing Deserialize"),
 "C16-1": ("C16","broadcast lag task reserves a slot before sending Lagged","subscriber with send_buffer 1 that lags","caught","C16 (C16/subscriber-hangs)"),
 "C16-2": ("C16","only one recovered subscriber re-admitted per send","two subscribers recovering between two sends","caught","C16 (C16/skipped-while-keeping-up)"),
 "C04-1": ("C04","recv_any: existing partial buffer wins over the first flag (merged arms)","buffered multi-chunk item whose send is cancelled mid-item, then another send","not yet run","C04 module in progress (C01 catches the same chmux-level change as C01-1 variant)"),
 "C04-2": ("C04","base::Receiver::recv streamed loop holds a chunk while awaiting queue space","streamed item, slow deserialiser, recv cancelled and retried","not yet run","C04 module in progress"),
 "C05-1": ("C05","chmux forward(): port id replaced by remote_port on the second hop","bin half handed over 3 connections with a value containing a channel half","not yet run","C05 module in progress"),
 "C05-2": ("C05","interlock Location::check_local never returns to Local after an abandoned serialisation","value with lr/bin half before a payload > 512 kB (two-pass serialisation)","not yet run","C05 module in progress"),
}
for k,(prop,what,needs,res,by) in T.items():
    d=f"/verif/seeded/{k}"
    if not os.path.isdir(d): continue
    meta={"id":k,"breaks_property":prop,"change":what,"needs_to_manifest":needs,
          "confirmed":"demonstration passes on the unchanged tree, fails with the patch, all 141 existing tests pass with the patch (see confirm.log; run by tools in a scratch worktree under /tmp/wt, removed afterwards)",
          "ran":"tools/try_seed.sh seeded/%s/patch.diff <checks> (git apply in /repo, quick tier, git checkout -- .)"%k,
          "result":res,"detected_by":by}
    json.dump(meta,open(d+"/meta.json","w"),indent=1)
print("ok")
