#!/usr/bin/env python3
"""Regenerates /verif/MANIFEST.json from the table below."""
import json
props=[json.loads(l) for l in open('/verif/properties.jsonl')]
SIM="single-threaded deterministic simulation (tokio current-thread runtime, paused virtual clock, seeded select!, poll-deferral hook H1): task-level interleavings only; absence of violations is not established"
CHECKS={
 "C01":("exploration","model-based property testing: generated send/receive scripts (whole/try_send/chunked, boundary-biased sizes), Cfg pairs, schedules and cancel points on a simulated transport; oracle = exact sequence of completed sends (DP alignment)","model-based property-based testing (proptest) on a simulated transport with cancellation injection",SIM,"§3 C01"),
 "C02":("exploration","invariant monitor over every prefix of the wire trace (independent reference decoder) of generated traffic mixes, Cfg pairs and delivery schedules with delayed credit frames","property-based testing with a wire-trace invariant monitor built on an independent reference codec","tap sees all frames in link order; "+SIM,"§3 C02"),
 "C03":("exploration","bounded-liveness property testing under a virtual clock: generated send/try_send/chunk/connect scripts with cancel points, stalled ports, odd receive buffers; oracles = completion by virtual deadline, linear frame budget, wire-ledger credit-leak probe","model-based property-based testing with virtual-time bounded liveness and a wire-ledger credit probe","liveness is bounded by a virtual deadline and a linear frame budget; "+SIM,"§3 C03"),
 "C09":("exploration","differential conformance testing against an independent reference codec: generated conversation scripts between a real endpoint and a reference peer, byte-exact comparison of every emitted frame, API-reaction checks for every reference-encoded message, golden vectors, Connect::io framing on byte streams","differential property-based testing against an independent reference codec (golden vectors + generated conversations)","the reference codec (written from the documented layout, pinned by hand-written golden vectors) stands in for 'another build'; conversations are sequential","§3 C09"),
}
EXTRA={}
try:
    exec(open('/verif/tools/manifest_extra.py').read())
except FileNotFoundError:
    pass
CHECKS.update(EXTRA)
hooks=json.load(open('/verif/tools/hooks.json'))
m={
 "version":1,
 "setup_cmd":"cd /verif/harness && CARGO_NET_OFFLINE=true cargo build --offline --bins",
 "hooks":hooks,
 "engines":[{"name":"rvh","path":"harness","serves_properties":sorted(CHECKS.keys()),"kind_free_text":"Rust harness crate (one binary per property): proptest TestRunner sharded over 16 threads, deterministic tokio simulation (paused clock, seeded select!, poll-deferral hook H1), harness-owned transport SimLink with wire tap/faults/delays, independent reference codec and reference peer, cancellation adapter, replay files, known-findings file"}],
 "checks":[],
 "notes":"Exit codes of ./check: 0 property held on everything explored, 1 violation (prints VIOLATION property=<id> replay=<path>), 2 inconclusive (build failure / watchdog). add_only=false: hook H1 adds remoc/src/exec/verif.rs and cfg-gated re-exports; the only edited existing line is the check-cfg list in remoc/Cargo.toml (appends 'cfg(remoc_verif)' so the guard-off build has no new warning). Genuine defects repaired by 'fix:' commits are listed in known_findings.json with status 'fixed'.",
 "not_applicable":[]
}
for pid in sorted(CHECKS):
    cat,text,tech,note,ref=CHECKS[pid]
    m["checks"].append({"property_id":pid,"quick_cmd":f"./check {pid} --tier quick","thorough_cmd":f"./check {pid} --tier thorough","evidence_file":f"evidence/{pid}.json","replay_cmd_template":f"./check {pid} --replay {{path}}","engine":"rvh","level_claimed":{"category":cat,"text":text,"design_ref":"DESIGN.md "+ref},"level_note":note,"technique":tech})
for p in props:
    if p['id'] not in CHECKS:
        m["not_applicable"].append({"property_id":p['id'],"reason":"check under construction in this session; will be claimed once its check is committed"})
json.dump(m,open('/verif/MANIFEST.json','w'),indent=1)
print("checks:",len(m['checks']),"n/a:",len(m['not_applicable']))
