#!/bin/bash
# usage: tools/integrate.sh <Cnn>  -- pulls props/cnn.rs (+ regress, report) from /tmp/hw/<Cnn> into /verif/harness
ID=$1; n=$(echo $ID | tr 'C' 'c')
cp /tmp/hw/$ID/harness/src/props/$n.rs /verif/harness/src/props/$n.rs || exit 1
if [ ! -f /verif/harness/src/bin/$n.rs ]; then
cat > /verif/harness/src/bin/$n.rs <<EOT
#![allow(clippy::type_complexity, clippy::too_many_arguments, dead_code, unused_imports)]
pub use rvh::engine;

#[path = "../props"]
mod props {
    #[path = "$n.rs"]
    pub mod $n;
}

fn main() {
    rvh::cli::run("$ID", props::$n::main, props::$n::replay)
}
EOT
fi
if [ -d /tmp/hw/$ID/regress/$ID ]; then mkdir -p /verif/regress/$ID; cp -n /tmp/hw/$ID/regress/$ID/*.json /verif/regress/$ID/ 2>/dev/null; fi
mkdir -p /verif/reports
for r in REPORT.md REPORT2.md; do [ -f /tmp/hw/$ID/$r ] && cp /tmp/hw/$ID/$r /verif/reports/$ID-$r; done
for f in /tmp/hw/$ID/harness/src/engine/*.rs; do b=$(basename $f); if ! diff -q $f /verif/harness/src/engine/$b >/dev/null 2>&1; then echo "ENGINE DIFF: $b"; fi; done
cd /verif/harness && CARGO_NET_OFFLINE=true cargo build --offline --bin $n 2>&1 | grep -E "^error" -A 12 | head -40
