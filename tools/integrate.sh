#!/bin/bash
# usage: tools/integrate.sh <Cnn>  -- pulls props/cnn.rs (+ regress) from /tmp/hw/<Cnn> into /verif/harness
ID=$1; n=$(echo $ID | tr 'C' 'c')
cp /tmp/hw/$ID/harness/src/props/$n.rs /verif/harness/src/props/$n.rs || exit 1
grep -q "pub mod $n;" /verif/harness/src/props/mod.rs || echo "pub mod $n;" >> /verif/harness/src/props/mod.rs
grep -q "(\"$ID\"," /verif/harness/src/main.rs || sed -i "s|fn registry() -> Vec<(&'static str, MainFn, ReplayFn)> {\n    vec!\[|&|; /    vec!\[/a\        (\"$ID\", props::$n::main as MainFn, props::$n::replay as ReplayFn)," /verif/harness/src/main.rs
if [ -d /tmp/hw/$ID/regress/$ID ]; then mkdir -p /verif/regress/$ID; cp /tmp/hw/$ID/regress/$ID/*.json /verif/regress/$ID/ 2>/dev/null; fi
cp /tmp/hw/$ID/REPORT.md /verif/reports/$ID.md 2>/dev/null
# engine differences?
for f in /tmp/hw/$ID/harness/src/engine/*.rs; do b=$(basename $f); if ! diff -q $f /verif/harness/src/engine/$b >/dev/null 2>&1; then echo "ENGINE DIFF: $b"; fi; done
cd /verif/harness && CARGO_NET_OFFLINE=true cargo build --offline 2>&1 | grep -E "^error" -A 12 | head -40
